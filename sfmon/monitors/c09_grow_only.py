"""C09 — grow-only containers: append-only, all-or-nothing, never shared.

History + model: the model of a FrameGO is an append-only log of (label, values, dtype); every
step's outcome and post-state are compared with the model, and after EVERY step all live
containers derived earlier are re-snapshotted against the snapshot taken when they were derived."""
import copy
import pickle

import numpy as np

from sfmon import canon
from sfmon.canon import cs
from sfmon.gen import frames as F
from sfmon.gen import labels as L
from sfmon.gen import values as V

PROPERTY = 'C09'
RULE = ('cases = histories of <= 14 steps on a FrameGO / IndexGO / IndexHierarchyGO: growth calls (setitem with array, list, '
        'scalar, generator, aligned and unaligned Series; extend with Frame/Series; extend_items; append; extend; each in valid, '
        'duplicate, partially duplicate, wrong-length and 2-D variants) interleaved with derivations (to_frame*, Frame(f), '
        'FrameGO(static), selection, relabel, rename, sort, reindex, operators, partially consumed iterators, set_index, grouping, '
        'transpose, copies of f.columns) and cache-materialising reads; non-trivial = the history holds >= 1 successful growth, >= 1 '
        'rejected growth or >= 1 derivation followed by growth; distinct = hash of the history')
EXPLANATION = 'every step re-checks: old labels/values/dtypes unchanged, new labels appended in order, rejected growth leaves the pre-call snapshot and len(columns) == blocks width, all earlier derived containers unchanged'
EXHAUSTIVE = {'quick': False, 'thorough': False}
ASSUMPTIONS = ['the columns attribute of a FrameGO is that frame\'s own live index (not a derived container); copies of it are judged',
               'snapshots read public observations only']
TIERS = {'quick': {'shards': 8, 'budget_s': 150, 'min_nontrivial': 8000},
         'thorough': {'shards': 16, 'budget_s': 1500, 'min_nontrivial': 120000}}
HOOKS = ('typeblocks', 'index', 'level')
ANCHORS = {
    'static_frame.core.frame': ['FrameGO.__setitem__', 'FrameGO.extend', 'FrameGO.extend_items', 'FrameGO._to_frame', 'Frame.__init__', 'Frame.to_frame_go'],
    'static_frame.core.type_blocks': ['TypeBlocks.append', 'TypeBlocks.extend', 'TypeBlocks.copy'],
    'static_frame.core.index': ['_IndexGOMixin.append', '_IndexGOMixin.extend', '_IndexGOMixin._update_array_cache', 'mutable_immutable_index_filter',
                                'immutable_index_filter', '_IndexGOMixin.__deepcopy__'],
    'static_frame.core.index_hierarchy': ['IndexHierarchyGO.append', 'IndexHierarchyGO.extend', 'IndexHierarchy.__init__', 'IndexHierarchy.copy'],
    'static_frame.core.index_level': ['IndexLevelGO.append', 'IndexLevelGO.extend', 'IndexLevel.to_index_level'],
    'static_frame.core.container_util': ['index_from_optional_constructor'],
}
REQUIRED_ANCHORS = ['frame.FrameGO.__setitem__', 'frame.FrameGO.extend', 'frame.FrameGO.extend_items', 'type_blocks.TypeBlocks.append',
                    'type_blocks.TypeBlocks.extend', 'index._IndexGOMixin.append', 'index._IndexGOMixin.extend',
                    'index_hierarchy.IndexHierarchyGO.append', 'index_hierarchy.IndexHierarchyGO.extend', 'frame.FrameGO._to_frame']
REQUIRED_TALLIES = [('outcome', 'rejected'), ('outcome', 'grown'), ('derivation', 'to_frame'), ('derivation', 'to_frame_go')]

_DTYPES = ['bool', 'int64', 'float64', '<U5', 'object', 'M8[D]', 'int8']
_GROW = ['setitem_array', 'setitem_list', 'setitem_scalar', 'setitem_generator', 'setitem_series', 'setitem_series_unaligned', 'setitem_series_auto_other_length',
         'setitem_dup', 'setitem_wrong_len', 'setitem_wrong_len_iterator', 'extend_items_wrong_len_iterator', 'setitem_2d', 'setitem_frame', 'extend_frame', 'extend_frame_dup', 'extend_frame_partial_dup',
         'extend_frame_unaligned', 'extend_frame_empty', 'extend_series', 'extend_series_dup', 'extend_items', 'extend_items_dup_mid',
         'extend_items_raising_generator', 'columns_append_by_user']
_DERIVE = ['to_frame', 'to_frame_go', 'to_frame_he', 'frame_init', 'framego_init', 'framego_from_static', 'select_cols', 'relabel', 'rename',
           'sort_columns', 'reindex', 'operator', 'iter_partial', 'set_index', 'group', 'transpose', 'columns_copy', 'columns_index_init',
           'columns_values', 'column_series', 'pickle', 'deepcopy', 'iloc_rows', 'drop', 'astype',
           # functional updates of a grow-only frame return a grow-only frame: it must not share the columns / blocks of its source
           'assign', 'assign_iloc', 'assign_apply', 'fillna', 'shift', 'roll', 'insert_after', 'head', 'isna',
           'round', 'abs_neg', 'mul_scalar', 'clip', 'he_to_go']
_READS = ['columns_values', 'values', 'shape', 'repr', 'dtypes', 'columns_len', 'loc_last']


TECHNIQUE = 'runtime monitoring: history checker for grow-only containers (accepted growth appends exactly; rejected growth leaves the pre-call snapshot; every earlier derived container unchanged incl. membership of new labels)'


def probes(ctx):
    start = {'rows': [0, 1], 'row_kind': 'auto', 'cols': ['a', 'b'], 'col_kind': 'str', 'dtypes': ['int64', 'int64'], 'cells': [[1, 2], [3, 4]], 'start_from': 'framego'}
    return [{'t': 'frame', 'start': start, 'steps': [('grow', 'extend_items_dup_mid', ['n0', 'n1', 'n2'], 'int64', [[1, 2], [3, 4], [5, 6]], 7)]}]


def _tame(v):
    if isinstance(v, int) and not isinstance(v, bool) and abs(v) > 2 ** 31:
        return v % 89
    return v


def _col(dt, n, rng):
    return [_tame(v) for v in V.column(dt, n, rng)]


def generate(ctx):
    rng = ctx.rng
    for _ in range(ctx.n(14000, 240000)):
        r = rng.random()
        if r < 0.7:
            yield _frame_history(rng)
        elif r < 0.85:
            yield _index_history(rng, hier=False)
        elif r < 0.97:
            yield _index_history(rng, hier=True)
        else:
            yield _typed_hier_history(rng)


def _frame_history(rng):
    nr = rng.choice([0, 1, 2, 3, 4])
    row_kind = rng.choice(['auto', 'str', 'int', 'IndexDate'])
    rows = L.labels_for(row_kind, nr, rng)
    nr = len(rows)
    col_kind = rng.choice(['str', 'str', 'int', 'auto', 'mixed', 'hier2'])
    n0 = rng.randint(0, 3)
    if col_kind == 'auto':
        cols0 = list(range(n0))
    elif col_kind == 'hier2':
        n0 = max(1, n0)
        cols0 = L.tree_labels(2, n0, rng)
    else:
        cols0 = L.labels_for(col_kind, n0, rng)
    dts0 = [rng.choice(_DTYPES) for _ in cols0]
    start = {'rows': rows, 'row_kind': row_kind, 'cols': cols0, 'col_kind': col_kind, 'dtypes': dts0,
             'cells': [_col(dt, nr, rng) for dt in dts0], 'start_from': rng.choice(['framego', 'static_to_go', 'empty_go' if not cols0 else 'framego'])}
    steps = []
    fresh = iter([f'n{i}' for i in range(100)] if col_kind != 'auto' else [])
    nxt_auto = len(cols0)
    for _ in range(rng.randint(2, 14)):
        r = rng.random()
        if r < 0.5:
            kind = rng.choice(_GROW + (['setitem_hier_nonlast_branch', 'setitem_hier_wrong_depth'] * 3 if col_kind == 'hier2' else []))
            if col_kind == 'hier2' and kind in ('extend_frame', 'extend_frame_dup', 'extend_frame_partial_dup', 'extend_frame_unaligned', 'extend_frame_empty',
                                                'extend_series', 'extend_series_dup'):
                kind = rng.choice(['setitem_array', 'setitem_series', 'extend_items', 'setitem_dup', 'setitem_hier_nonlast_branch'])
            dt = rng.choice(_DTYPES)
            if col_kind == 'auto':
                # sequential labels keep the auto-integer columns; any other label promotes them to a mapped index
                if rng.random() < 0.8:
                    labs = ('seq',)  # resolved at run time to len(columns), len(columns) + 1, ...
                else:
                    base = max(nxt_auto, 10 ** 6) + 10
                    labs = [rng.choice([base, f'x{base}', -base]), base + 1, base + 2]
                    nxt_auto = base + 3
            elif col_kind == 'hier2':
                labs = ('hier_seq', len(steps), rng.random() < 0.6)
            else:
                labs = [next(fresh), next(fresh), next(fresh)]
            steps.append(('grow', kind, labs, dt, [_col(dt, nr, rng) for _ in range(3)], rng.randrange(1 << 30)))
        elif r < 0.85:
            steps.append(('derive', rng.choice(_DERIVE), rng.randrange(1 << 30)))
        else:
            steps.append(('read', rng.choice(_READS)))
    return {'t': 'frame', 'start': start, 'steps': steps}


def _typed_hier_history(rng):
    """A hierarchy whose inner depth is a date index, grown by labels whose date is given in the forms construction accepts."""
    days = ['2021-03-%02d' % d for d in range(1, 9)]
    outers = ['a', 'b', 'c', 'd', 'e']
    start = [(outers[0], d) for d in days[:rng.randint(1, 3)]]
    steps, o = [], 0
    held = list(start)
    for _ in range(rng.randint(2, 9)):
        r = rng.random()
        if r < 0.75:
            if rng.random() < 0.5 and o + 1 < len(outers):
                o += 1
            free = [d for d in days if (outers[o], d) not in held]
            if not free:
                continue
            lab = (outers[o], free[0] if rng.random() < 0.7 else rng.choice(free))
            held.append(lab)
            steps.append(('append', lab, rng.choice(['str', 'date', 'dt64'])))
        elif r < 0.88:
            steps.append(('derive', rng.choice(['copy', 'static_init', 'go_init', 'deepcopy'])))
        else:
            steps.append(('read', rng.choice(['values', 'len', 'iter', 'contains'])))
    return {'t': 'hier_typed', 'kind': 'hier_typed', 'start': start, 'steps': steps, 'depth': 2}


def _index_history(rng, hier):
    if hier:
        depth = rng.choice([2, 3])
        pool = L.tree_labels(depth, 16, rng)
        n0 = rng.randint(1, min(4, len(pool)))
        start, rest = pool[:n0], pool[n0:]
    else:
        kind = rng.choice(['int', 'str', 'mixed', 'float', 'IndexDate', 'auto'])
        pool = list(range(20)) if kind == 'auto' else L.flat_labels(kind, 16, rng)
        n0 = rng.randint(0, min(4, len(pool)))
        start, rest = pool[:n0], pool[n0:]
    steps, i = [], 0
    for _ in range(rng.randint(2, 12)):
        r = rng.random()
        held = start + rest[:i]
        if r < 0.3 and i < len(rest):
            steps.append(('append', rest[i]))
            i += 1
        elif r < 0.45 and i < len(rest):
            k = rng.randint(1, min(3, len(rest) - i))
            steps.append(('extend', rest[i:i + k]))
            i += k
        elif r < 0.55 and held:
            steps.append(('append_dup', rng.choice(held)))
        elif r < 0.6 and hier:
            steps.append(('extend_type_mismatch', ['zz%d' % len(steps), 'zy%d' % len(steps)][:rng.randint(1, 2)]))
        elif r < 0.68 and held and i + 1 < len(rest):
            steps.append(('extend_partial_dup', [rest[i], rng.choice(held), rest[i + 1]]))
            if hier:
                i += 1  # a hierarchy is grown label by label: the first (valid) append stays
        elif r < 0.9:
            steps.append(('derive', rng.choice(['copy', 'static_init', 'go_init', 'values', 'iloc', 'rename', 'pickle', 'deepcopy', 'series_index',
                                                 'relabel', 'to_frame_columns'])))
        else:
            steps.append(('read', rng.choice(['values', 'len', 'iter', 'positions', 'contains'])))
    return {'t': 'hier' if hier else 'index', 'kind': 'hier' if hier else kind, 'start': start, 'steps': steps,
            'depth': len(start[0]) if hier else 1}


# --------------------------------------------------------------------------------------
# FrameGO histories

class Model:
    """append-only log of columns."""

    def __init__(self, rows, cols, dtypes, cells):
        self.rows = list(rows)
        self.cols = list(cols)
        self.values = [tuple(cs(v) for v in col) for col in cells]

    def add(self, label, canonical_values):
        self.cols.append(label)
        self.values.append(tuple(canonical_values))


def _build_start(start):
    import static_frame as sf
    rows, cols, dts, cells = start['rows'], start['cols'], start['dtypes'], start['cells']
    idx = L.build_index(start['row_kind'], rows)
    if start['col_kind'] == 'auto':
        columns = None
    elif start['col_kind'] == 'hier2':
        import static_frame as sf_
        f = sf_.FrameGO.from_items([(i, V.to_array(v, dt)) for i, (dt, v) in enumerate(zip(dts, cells))], index=idx)
        return sf_.FrameGO(f.relabel(columns=sf_.IndexHierarchy.from_labels(cols)))
    elif start['col_kind'] == 'mixed':
        columns = L.build_index('mixed', cols)
    else:
        columns = list(cols)
    items = [(c, V.to_array(v, dt)) for c, dt, v in zip(cols, dts, cells)]
    if not cols:
        f = sf.FrameGO(index=idx if idx is not None else range(len(rows)))
        return f
    if start['start_from'] == 'static_to_go':
        st = sf.Frame.from_items(items, index=idx) if columns is not None else sf.Frame.from_items(items, index=idx).relabel(columns=sf.IndexAutoFactory)
        return st.to_frame_go()
    f = sf.FrameGO.from_items(items, index=idx)
    if columns is None:
        f = sf.FrameGO(f.relabel(columns=sf.IndexAutoFactory))
    return f


def _frame_state(f):
    """public snapshot of a FrameGO reduced to what the statement speaks about."""
    s = canon.snap(f)
    return s


def _coherent(ctx, f, klass, stage):
    """labels and data in step; every column readable."""
    ncols = len(f.columns)
    if ncols != f._blocks.shape[1] or f.shape[1] != ncols:
        ctx.violation('labels_and_data_out_of_step', detail={'columns': ncols, 'blocks_width': int(f._blocks.shape[1]), 'shape': tuple(f.shape), 'stage': stage},
                      klass=dict(klass, stage=stage))
        return False
    try:
        for lab in list(f.columns):
            f[lab]
        f.values
    except Exception as e:
        ctx.violation('container_unusable_after_growth_call', detail={'exception': type(e).__name__, 'message': str(e)[:200], 'stage': stage},
                      klass=dict(klass, stage=stage, exception=type(e).__name__))
        return False
    return True


def _matches_model(ctx, f, model, klass, stage):
    s = canon.snap(f)
    exp_cols = tuple(cs(c) for c in model.cols)
    if not canon.seq_eq(list(s['columns']['labels']), list(exp_cols), canon.leq):
        ctx.violation('columns_not_append_only', detail={'expected': exp_cols, 'got': s['columns']['labels'], 'stage': stage}, klass=dict(klass, stage=stage))
        return False
    if s['index']['labels'] != tuple(cs(r) for r in model.rows):
        ctx.violation('index_changed', detail={'stage': stage}, klass=dict(klass, stage=stage))
        return False
    for j, col in enumerate(model.values):
        if not canon.seq_eq(list(s['cols'][j]), list(col), canon.leq):
            ctx.violation('old_values_changed', detail={'column': j, 'expected': col, 'got': s['cols'][j], 'stage': stage}, klass=dict(klass, stage=stage))
            return False
    return True


def _gen_values(vals):
    for v in vals:
        yield v


def _raising_pairs(pairs):
    for i, p in enumerate(pairs):
        if i == 1:
            raise ValueError('generator failed midway')
        yield p


def _do_grow(ctx, f, model, step, klass):
    """Execute one growth call. Returns ('grown', [(label, canonical values)...]) | ('rejected', exc) | ('violation', None)."""
    import random
    import static_frame as sf
    _, kind, labs, dt, cols, seed = step
    if labs == ('seq',):
        labs = [len(model.cols) + j for j in range(3)]
    elif labs and labs[0] == 'hier_seq':
        # continue the tree: new inner labels under the last outer label, or a new outer label
        _, tag, under_last = labs
        outer = model.cols[-1][0] if under_last else f'O{tag}'
        labs = [(outer, f'n{tag}_{j}') for j in range(3)]
        if kind == 'setitem_hier_nonlast_branch':
            outers = []
            for c in model.cols:
                if all(cs(c[0]) != cs(o) for o in outers):
                    outers.append(c[0])
            if len(outers) < 2:
                return 'skip', None
            labs = [(outers[0], f'n{tag}_x')] * 3
        elif kind == 'setitem_hier_wrong_depth':
            labs = [random.Random(seed).choice([('a',), 'zzz', ('a', 'b', 'c')])] * 3
    rng = random.Random(seed)
    nr = len(model.rows)
    arr = V.to_array(cols[0], dt)
    held = list(model.cols)
    expect_reject = False
    added = []
    try:
        if kind == 'setitem_array':
            f[labs[0]] = arr
            added = [(labs[0], canon.arr_cells(arr))]
        elif kind == 'setitem_list':
            if dt == 'object' or nr == 0:
                f[labs[0]] = arr
            else:
                f[labs[0]] = list(arr.tolist()) if arr.dtype.kind not in 'Mm' else list(arr)
            added = [(labs[0], canon.arr_cells(arr))]
        elif kind == 'setitem_scalar':
            v = cols[0][0] if nr else 5
            if isinstance(v, (tuple, bytes)) or v is None:
                v = 5
            f[labs[0]] = v
            added = [(labs[0], [cs(v)] * nr)]
        elif kind == 'setitem_generator':
            if dt == 'object':
                return 'skip', None  # heterogeneous Python values through np.array: C07's known finding
            vals = [x for x in (arr.tolist() if arr.dtype.kind not in 'Mm' else list(arr))]
            f[labs[0]] = _gen_values(vals)
            added = [(labs[0], canon.arr_cells(arr))]
        elif kind == 'setitem_series':
            f[labs[0]] = sf.Series(arr, index=f.index)
            added = [(labs[0], canon.arr_cells(arr))]
        elif kind == 'setitem_series_unaligned':
            if nr < 2 or isinstance(f.index, sf.IndexHierarchy):
                return 'skip', None
            order = list(range(nr))
            rng.shuffle(order)
            keep = order[:max(1, nr - 1)]
            s = sf.Series(V.to_array([cols[0][i] for i in keep], dt), index=f.index.iloc[keep])
            f[labs[0]] = s
            exp = [cs(cols[0][i]) if i in keep else None for i in range(nr)]
            added = [(labs[0], exp)]
        elif kind == 'setitem_series_auto_other_length':
            # both the frame and the value carry a default integer index, of different lengths: still aligned by label
            if nr < 1 or getattr(f.index, '_map', 1) is not None:
                return 'skip', None
            k = rng.choice([max(0, nr - 1), nr + 1, nr + 2, max(0, nr - 2)])
            vals = [cols[0][i % nr] for i in range(k)]
            s = sf.Series(V.to_array(vals, dt)) if k else sf.Series((), dtype=V.to_array(cols[0], dt).dtype)
            f[labs[0]] = s
            exp = [cs(vals[i]) if i < k else None for i in range(nr)]
            added = [(labs[0], exp)]
        elif kind == 'setitem_dup':
            if not held:
                return 'skip', None
            expect_reject = True
            f[rng.choice(held)] = arr
        elif kind == 'setitem_wrong_len':
            expect_reject = True
            f[labs[0]] = np.arange(nr + 1 + rng.randint(0, 2))
        elif kind in ('setitem_wrong_len_iterator', 'extend_items_wrong_len_iterator'):
            # a one-shot iterable has no len(): its length is only known once it has been consumed into an array
            expect_reject = True
            n_bad = rng.choice([nr + 1, nr + 2, max(0, nr - 1)]) if nr else 1
            form = rng.choice(['generator', 'map', 'iter'])
            src = list(range(n_bad))
            bad = (x for x in src) if form == 'generator' else map(int, src) if form == 'map' else iter(src)
            if kind == 'setitem_wrong_len_iterator':
                f[labs[0]] = bad
            else:
                f.extend_items([(labs[0], bad)])
        elif kind in ('setitem_hier_nonlast_branch', 'setitem_hier_wrong_depth'):
            expect_reject = True
            f[labs[0]] = arr
        elif kind == 'setitem_2d':
            expect_reject = True
            f[labs[0]] = np.arange(nr * 2).reshape(nr, 2)
        elif kind == 'setitem_frame':
            expect_reject = True
            f[labs[0]] = sf.Frame(np.arange(nr).reshape(nr, 1), index=f.index)
        elif kind in ('extend_frame', 'extend_frame_dup', 'extend_frame_partial_dup', 'extend_frame_unaligned', 'extend_frame_empty'):
            if kind == 'extend_frame_empty':
                f.extend(sf.Frame(index=f.index))
                return 'grown', []
            names = list(labs[:2])
            if kind == 'extend_frame_dup':
                if len(held) < 2:
                    return 'skip', None
                names = rng.sample(held, 2)
                expect_reject = True
            elif kind == 'extend_frame_partial_dup':
                if not held:
                    return 'skip', None
                names = [labs[0], rng.choice(held)]
                expect_reject = True
            if any(isinstance(x, int) and not isinstance(x, bool) for x in names) and any(isinstance(x, str) for x in names):
                cols_idx = sf.Index(np.array(names, dtype=object))
            else:
                cols_idx = sf.Index(names)
            if kind == 'extend_frame_unaligned':
                if nr < 2 or isinstance(f.index, sf.IndexHierarchy):
                    return 'skip', None
                order = list(range(nr))
                rng.shuffle(order)
                other = sf.Frame.from_items([(n_, V.to_array([cols[j][i] for i in order], dt)) for j, n_ in enumerate(names)], index=f.index.iloc[order])
                other = other.relabel(columns=cols_idx)
            else:
                other = sf.Frame.from_items([(j, V.to_array(cols[j], dt)) for j, n_ in enumerate(names)], index=f.index).relabel(columns=cols_idx)
            f.extend(other)
            added = [(n_, [cs(v) for v in cols[j]]) for j, n_ in enumerate(names)]
        elif kind in ('extend_series', 'extend_series_dup'):
            name = labs[0]
            if kind == 'extend_series_dup':
                if not held:
                    return 'skip', None
                name = rng.choice(held)
                expect_reject = True
            f.extend(sf.Series(arr, index=f.index, name=name))
            added = [(name, canon.arr_cells(arr))]
        elif kind in ('extend_items', 'extend_items_dup_mid', 'extend_items_raising_generator'):
            names = list(labs[:3])
            if kind == 'extend_items_dup_mid':
                if not held:
                    return 'skip', None
                names[1] = rng.choice(held)
                expect_reject = True
            pairs = [(n_, V.to_array(cols[j], dt)) for j, n_ in enumerate(names)]
            if kind == 'extend_items_raising_generator':
                expect_reject = True
                f.extend_items(_raising_pairs(pairs))
            else:
                f.extend_items(pairs)
            added = [(n_, [cs(v) for v in cols[j]]) for j, n_ in enumerate(names)]
        elif kind == 'columns_append_by_user':
            return 'skip', None
        else:
            raise KeyError(kind)
    except Exception as e:
        return ('rejected' if expect_reject else 'unexpected_reject'), e
    if expect_reject:
        return 'accepted_invalid', None
    return 'grown', added


def _derive(ctx, f, model, what, seed):
    """Return a list of (description, container) derived from f now."""
    import random
    import static_frame as sf
    rng = random.Random(seed)
    nc = len(model.cols)
    try:
        if what == 'to_frame':
            return [(what, f.to_frame())]
        if what == 'to_frame_go':
            return [(what, f.to_frame_go())]
        if what == 'to_frame_he':
            return [(what, f.to_frame_he())]
        if what == 'frame_init':
            return [(what, sf.Frame(f))]
        if what == 'framego_init':
            return [(what, sf.FrameGO(f))]
        if what == 'framego_from_static':
            st = f.to_frame()
            return [('static', st), ('framego_from_static', sf.FrameGO(st)), ('static.to_frame_go', st.to_frame_go())]
        if what == 'select_cols' and nc:
            k = rng.randint(1, nc)
            return [(what, f[rng.sample(model.cols, k)])] if all(not isinstance(c, tuple) for c in model.cols) else []
        if what == 'relabel':
            return [(what, f.relabel(columns=_lab))]
        if what == 'rename':
            return [(what, f.rename('renamed'))]
        if what == 'sort_columns':
            return [(what, f.sort_columns())]
        if what == 'reindex' and nc:
            return [(what, f.reindex(columns=list(model.cols[::-1])))]
        if what == 'operator':
            return [(what, f == f)]
        if what == 'iter_partial' and nc:
            it = iter(f.iter_series(axis=0))
            first = next(it)
            return [('iter_series_first', first)]
        if what == 'set_index' and nc:
            return [(what, f.set_index(model.cols[0]))]
        if what == 'group' and nc and len(model.rows):
            return [('group_' + str(i), g) for i, (_, g) in enumerate(f.iter_group_items(model.cols[0]))][:2]
        if what == 'transpose':
            return [(what, f.transpose())]
        if what == 'columns_copy':
            return [(what, f.columns.copy())]
        if what == 'columns_index_init':
            return [(what, sf.Index(f.columns)), ('columns_indexgo_init', sf.IndexGO(f.columns))]
        if what == 'columns_values':
            return [(what, f.columns.values)]
        if what == 'column_series' and nc:
            return [(what, f[model.cols[rng.randrange(nc)]])]
        if what == 'pickle':
            return [(what, pickle.loads(pickle.dumps(f)))]
        if what == 'deepcopy':
            return [(what, copy.deepcopy(f)), ('copy', copy.copy(f))]
        if what == 'iloc_rows' and len(model.rows):
            return [(what, f.iloc[[0]])]
        if what == 'drop' and nc:
            return [(what, f.drop[model.cols[0]])]
        if what == 'astype' and nc:
            return [(what, f.astype(object))]
        if what == 'assign' and nc:
            return [(what, f.assign[model.cols[rng.randrange(nc)]](0))]
        if what == 'assign_iloc' and nc and len(model.rows):
            return [(what, f.assign.iloc[0, rng.randrange(nc)](0)), ('assign_loc_rows', f.assign.loc[f.index[0]:](0))]
        if what == 'assign_apply' and nc:
            return [(what, f.assign[model.cols[0]].apply(_identity))]
        if what == 'fillna':
            return [(what, f.fillna(0))]
        if what == 'shift':
            return [(what, f.shift(1, fill_value=0))]
        if what == 'roll':
            return [(what, f.roll(1, 1))]
        if what == 'insert_after' and nc and all(not isinstance(c, tuple) for c in model.cols):
            return [(what, f.insert_after(model.cols[-1], sf.Series(np.arange(len(model.rows)), index=f.index, name='__inserted__')))]
        if what == 'head':
            return [(what, f.head(1)), ('tail', f.tail(1))]
        if what == 'isna':
            return [(what, f.isna())]
        if what == 'round':
            return [(what, round(f, 1))]
        if what == 'abs_neg':
            return [('abs', abs(f)), ('neg', -f)]
        if what == 'mul_scalar':
            return [(what, f * 1)]
        if what == 'clip':
            return [(what, f.clip(lower=-10 ** 9))]
        if what == 'he_to_go':
            he = f.to_frame_he()
            return [('to_frame_he', he), ('he.to_frame_go', he.to_frame_go()), ('he.to_frame', he.to_frame())]
    except TypeError as e:
        ctx.tally('derivation_raised', f'{what}:{type(e).__name__}')
    except Exception as e:
        ctx.tally('derivation_raised', f'{what}:{type(e).__name__}')
    return []


def _lab(x):
    return ('L', x)


def _identity(x):
    return x


def _snap_any(x):
    if isinstance(x, np.ndarray):
        return canon.snap(x)
    return canon.snap(x)


def _grow_derived(ctx, live, klass):
    """derived grow-only containers are grown themselves: the source must not see it (checked by the caller)."""
    import static_frame as sf
    for d in live:
        c = d['obj']
        if isinstance(c, sf.FrameGO) and not d.get('grown'):
            try:
                c['__derived_growth__'] = np.arange(len(c.index))
                d['snap'] = canon.snap(c)
                d['grown'] = True
            except Exception as e:
                ctx.tally('derived_growth_raised', type(e).__name__)
        elif isinstance(c, sf.IndexGO) and not d.get('grown'):
            try:
                c.append('__derived_growth__')
                d['snap'] = canon.snap(c)
                d['grown'] = True
            except Exception as e:
                ctx.tally('derived_growth_raised', type(e).__name__)


def check(case, ctx):
    ctx.tally('history_type', case['t'])
    if case['t'] == 'frame':
        return _check_frame_history(case, ctx)
    if case['t'] == 'hier_typed':
        return _check_typed_hier_history(case, ctx)
    return _check_index_history(case, ctx)


def _check_typed_hier_history(case, ctx):
    import datetime
    import static_frame as sf
    klass = {'t': 'hier_typed', 'kind': 'hier_typed'}
    as_label = lambda t: (t[0], np.datetime64(t[1], 'D'))
    idx = sf.IndexHierarchyGO.from_labels(case['start'], index_constructors=(sf.Index, sf.IndexDate))
    model = [as_label(t) for t in case['start']]
    live, grown = [], 0
    for si, step in enumerate(case['steps']):
        op = step[0]
        k2 = dict(klass, step=op)
        ctx.tally('index_step', 'typed:' + op)
        if op == 'append':
            (o, d), form = step[1], step[2]
            given = d if form == 'str' else (datetime.date.fromisoformat(d) if form == 'date' else np.datetime64(d, 'D'))
            k2['date_form'] = form
            k2['new_outer'] = all(o != m[0] for m in model)
            try:
                idx.append((o, given))
            except Exception as e:
                ctx.violation('valid_growth_rejected', detail={'growth': 'append', 'label': repr((o, given)), 'exception': type(e).__name__, 'message': str(e)[:200]},
                              klass=dict(k2, exception=type(e).__name__))
                return
            model.append(as_label(step[1]))
            grown += 1
            ctx.tally('outcome', 'grown')
        elif op == 'derive':
            what = step[1]
            d = {'copy': lambda: idx.copy(), 'static_init': lambda: sf.IndexHierarchy(idx), 'go_init': lambda: sf.IndexHierarchyGO(idx),
                 'deepcopy': lambda: copy.deepcopy(idx)}[what]()
            live.append((what, d, _snap_any(d)))
            ctx.tally('derivation', 'index:' + what)
        else:
            what = step[1]
            if what == 'values':
                idx.values
            elif what == 'len':
                len(idx)
            elif what == 'iter':
                list(idx)
            elif what == 'contains':
                model[0] in idx
        # every label held before is what it was, the new one follows, and the date depth keeps its type and dtype
        try:
            now = [cs(x) for x in canon.index_labels(idx)]
            dt = idx.values_at_depth(1).dtype
            member = all((m in idx) and idx.loc_to_iloc(m) == i for i, m in enumerate(model))
        except Exception as e:
            ctx.violation('container_unusable_after_growth_call', detail={'step': op, 'exception': type(e).__name__, 'message': str(e)[:200]}, klass=dict(k2, exception=type(e).__name__))
            return
        if not canon.seq_eq(now, [cs(x) for x in model], canon.leq) or not member:
            ctx.violation('columns_not_append_only', detail={'expected': [cs(x) for x in model], 'got': now, 'step': op, 'lookups_agree': member}, klass=k2)
            return
        if dt != np.dtype('M8[D]'):
            ctx.violation('dtype_changed_by_growth', detail={'depth': 1, 'dtype': str(dt), 'step': op}, klass=k2)
            return
        for name, obj, snap0 in live:
            if _snap_any(obj) != snap0:
                ctx.violation('growth_visible_through_derived_container', detail={'derived': name, 'step': op}, klass=dict(klass, derived='index:' + name))
                return
    ctx.evaluation(repr(case), bool(grown))


def _check_frame_history(case, ctx):
    import static_frame as sf
    start = case['start']
    klass = {'t': 'frame', 'col_kind': start['col_kind'], 'start_from': start['start_from']}
    f = _build_start(start)
    model = Model(start['rows'], start['cols'], start['dtypes'], start['cells'])
    live = []  # derived containers with their snapshot
    grown = rejected = derived_then_grown = 0
    ctx.sample({'frame_history': [s[1] if s[0] != 'read' else 'read:' + s[1] for s in case['steps']], 'start_cols': repr(start['cols']), 'rows': len(start['rows'])})
    if not _matches_model(ctx, f, model, klass, 'start'):
        return
    for si, step in enumerate(case['steps']):
        stage = f'step{si}:{step[0]}:{step[1]}'
        if step[0] == 'grow':
            kind = step[1]
            before = canon.snap(f)
            outcome, payload = _do_grow(ctx, f, model, step, klass)
            k2 = dict(klass, growth=kind)
            ctx.tally('growth_kind', kind)
            if outcome == 'skip':
                continue
            early = None
            if outcome == 'grown' and si % 2 == 0:
                # derived from the grown frame before anything has read it: caches the growth left stale must not leak into it
                how = ('to_frame', 'rename', 'to_frame_go', 'to_frame_he')[(si // 2) % 4]
                try:
                    early = (how, f.rename('early') if how == 'rename' else getattr(f, how)())
                    ctx.tally('early_derivation', how)
                except Exception as e:
                    ctx.violation('container_unusable_after_growth_call', detail={'read': 'derive:' + how, 'exception': type(e).__name__, 'message': str(e)[:200]},
                                  klass=dict(klass, stage=stage, exception=type(e).__name__))
                    return
            if outcome == 'grown':
                ctx.tally('outcome', 'grown')
                grown += 1
                if live:
                    derived_then_grown += 1
                for lab, vals in payload:
                    model.add(lab, [v if v is not None else ('float', canon.NAN) for v in vals])
                if not _coherent(ctx, f, k2, stage) or not _matches_model_after_growth(ctx, f, model, payload, k2, stage):
                    return
                if early is not None:
                    try:
                        se, sf_ = canon.snap(early[1]), canon.snap(f)
                        same = all(se[key] == sf_[key] for key in ('shape', 'cols', 'dtypes')) and se['columns']['labels'] == sf_['columns']['labels'] \
                            and se['index']['labels'] == sf_['index']['labels']
                        why = None if same else 'content differs'
                    except Exception as e:
                        same, why = False, f'{type(e).__name__}: {e}'
                    if not same:
                        ctx.violation('derived_right_after_growth_differs', detail={'derivation': early[0], 'why': str(why)[:300]}, klass=dict(k2, derived=early[0]))
                        return
            elif outcome == 'rejected':
                ctx.tally('outcome', 'rejected')
                ctx.tally('rejection_class', type(payload).__name__)
                rejected += 1
                after = canon.snap_safe(f) if hasattr(canon, 'snap_safe') else _safe_snap(f)
                if after != before:
                    ctx.violation('rejected_growth_changed_container', detail={'growth': kind, 'exception': type(payload).__name__,
                                                                               'before_columns': before['columns']['labels'],
                                                                               'after': canon.brief(after, 500)},
                                  klass=k2)
                    # the model cannot follow a half-applied growth: stop this history
                    _coherent(ctx, f, k2, stage)
                    return
                if not _coherent(ctx, f, k2, stage):
                    return
            elif outcome == 'unexpected_reject':
                ctx.violation('valid_growth_rejected', detail={'growth': kind, 'exception': type(payload).__name__, 'message': str(payload)[:300]},
                              klass=dict(k2, exception=type(payload).__name__))
                return
            elif outcome == 'accepted_invalid':
                ctx.violation('invalid_growth_accepted', detail={'growth': kind, 'columns': repr(list(f.columns))[:300]}, klass=k2)
                return
            # grow derived grow-only containers too (other direction of "never shared")
            _grow_derived(ctx, live, klass)
            if not _matches_model_after_growth(ctx, f, model, [], klass, stage + ':after_derived_growth'):
                return
        elif step[0] == 'derive':
            for name, obj in _derive(ctx, f, model, step[1], step[2]):
                ctx.tally('derivation', name)
                live.append({'name': name, 'obj': obj, 'snap': _snap_any(obj), 'at': si, 'cols_at': len(model.cols)})
        else:
            what = step[1]
            try:
                if what == 'columns_values':
                    f.columns.values
                elif what == 'values':
                    f.values
                elif what == 'shape':
                    f.shape
                elif what == 'repr':
                    repr(f)
                elif what == 'dtypes':
                    f.dtypes
                elif what == 'columns_len':
                    len(f.columns)
                elif what == 'loc_last' and model.cols:
                    f[model.cols[-1]]
            except Exception as e:
                ctx.violation('container_unusable_after_growth_call', detail={'read': what, 'exception': type(e).__name__, 'message': str(e)[:200]},
                              klass=dict(klass, stage=stage, exception=type(e).__name__))
                return
        # every live derived container must be what it was
        for d in live:
            if step[0] == 'grow' and not d.get('grown') and not _new_labels_absent(ctx, d, model, klass, stage):
                return
            now = _snap_any(d['obj'])
            if now != d['snap']:
                ctx.violation('growth_visible_through_derived_container',
                              detail={'derived': d['name'], 'derived_at_step': d['at'], 'stage': stage, 'before': canon.brief(d['snap'], 500), 'after': canon.brief(now, 500)},
                              klass=dict(klass, derived=d['name']))
                return
            if isinstance(d['obj'], np.ndarray) and d['obj'].flags.writeable:
                ctx.violation('derived_array_writeable', detail={'derived': d['name']}, klass=dict(klass, derived=d['name']))
                return
    ctx.evaluation(repr(case), bool(grown or rejected or derived_then_grown))
    ctx.tally('history_summary', f'grown>0:{grown > 0} rejected>0:{rejected > 0} derived_then_grown>0:{derived_then_grown > 0}')


def _new_labels_absent(ctx, d, model, klass, stage):
    """labels the source gained after `d` was derived must not be members of / resolvable through the derived container."""
    import static_frame as sf
    from static_frame.core.index_base import IndexBase
    obj = d['obj']
    held_then = d.get('cols_at')
    if held_then is None:
        return True
    new = [c for c in model.cols[held_then:]]
    if not new:
        return True
    targets = []
    if isinstance(obj, sf.Frame):
        targets = [('columns', obj.columns), ('index', obj.index)]
    elif isinstance(obj, sf.Series):
        targets = [('index', obj.index)]
    elif isinstance(obj, IndexBase):
        targets = [('self', obj)]
    for name, idx in targets:
        have = {cs(x) for x in canon.index_labels(idx)}
        for lab in new[-2:]:
            if cs(lab) in have or (isinstance(lab, tuple) and idx.depth != len(lab)) or (not isinstance(lab, tuple) and idx.depth != 1):
                continue
            try:
                member = lab in idx
            except Exception:
                member = False
            resolved = None
            try:
                resolved = idx.loc_to_iloc(lab)
            except Exception:
                pass
            if member or isinstance(resolved, (int, np.integer)) and not (getattr(idx, '_map', 1) is None):
                ctx.violation('growth_visible_through_derived_container',
                              detail={'derived': d['name'], 'axis': name, 'new_label': repr(lab), 'member': bool(member), 'resolved': repr(resolved), 'stage': stage},
                              klass=dict(klass, derived=d['name'], via='membership'))
                return False
    return True


def _safe_snap(f):
    try:
        return canon.snap(f)
    except Exception as e:
        return {'k': 'unsnappable', 'exception': type(e).__name__, 'columns': {'labels': tuple(cs(x) for x in list(f.columns))}}


def _matches_model_after_growth(ctx, f, model, payload, klass, stage):
    s = _safe_snap(f)
    if s.get('k') != 'Frame':
        ctx.violation('container_unusable_after_growth_call', detail={'stage': stage, 'snapshot': canon.brief(s, 300)}, klass=dict(klass, stage=stage))
        return False
    exp_cols = [cs(c) for c in model.cols]
    if not canon.seq_eq(list(s['columns']['labels']), exp_cols, canon.leq):
        ctx.violation('columns_not_append_only', detail={'expected': exp_cols, 'got': s['columns']['labels'], 'stage': stage}, klass=dict(klass, stage=stage))
        return False
    if s['index']['labels'] != tuple(cs(r) for r in model.rows):
        ctx.violation('index_changed', detail={'stage': stage}, klass=dict(klass, stage=stage))
        return False
    for j, col in enumerate(model.values):
        got = list(s['cols'][j])
        if len(got) != len(col) or not all(_cell_ok(g, e) for g, e in zip(got, col)):
            ctx.violation('values_differ_from_log', detail={'column': j, 'label': repr(model.cols[j]), 'expected': col, 'got': got, 'stage': stage},
                          klass=dict(klass, stage=stage, new_column=j >= len(model.values) - len(payload)))
            return False
    return True


def _cell_ok(g, e):
    if canon.leq(g, e):
        return True
    if e == ('float', canon.NAN) and (g == ('None', None) or (g[0] in ('dt64', 'td64') and g[2] == canon.NAT)):
        return True
    if e[0] in ('dt64', 'td64') and e[2] == canon.NAT and g in (('None', None), ('float', canon.NAN)):
        return True
    return False


# --------------------------------------------------------------------------------------
# index histories

def _check_index_history(case, ctx):
    import static_frame as sf
    hier = case['t'] == 'hier'
    kind = case['kind']
    klass = {'t': case['t'], 'kind': kind}
    start, steps = case['start'], case['steps']
    if hier:
        idx = sf.IndexHierarchyGO.from_labels(start, depth_reference=case['depth'])
    elif kind == 'auto':
        fg = sf.FrameGO(np.arange(2 * len(start)).reshape(2, len(start))) if start else sf.FrameGO(index=(0, 1))
        idx = fg.columns
    elif kind == 'IndexDate':
        idx = sf.IndexDateGO(start)
    elif kind == 'mixed':
        idx = sf.IndexGO(L.build_index('mixed', start).values if start else ())
    else:
        idx = sf.IndexGO(start)
    model = list(start)
    live = []
    grown = rejected = 0
    ctx.sample({'index_history': kind, 'steps': [s[0] for s in steps]})

    def labels_now():
        return [cs(x) for x in canon.index_labels(idx)]

    for si, step in enumerate(steps):
        op = step[0]
        ctx.tally('index_step', op)
        k2 = dict(klass, step=op)
        if op == 'append':
            idx.append(step[1])
            model.append(step[1])
            grown += 1
            ctx.tally('outcome', 'grown')
        elif op == 'extend':
            if hier:
                held_outer = {cs(t[0]) for t in model}
                if any(cs(t[0]) in held_outer for t in step[1]):
                    for t in step[1]:
                        idx.append(t)
                else:
                    idx.extend(sf.IndexHierarchy.from_labels(step[1]))
            else:
                idx.extend(list(step[1]))
            model.extend(step[1])
            grown += 1
            ctx.tally('outcome', 'grown')
        elif op in ('append_dup', 'extend_partial_dup'):
            before = labels_now()
            try:
                if op == 'append_dup':
                    idx.append(step[1])
                elif hier:
                    for t in step[1]:
                        idx.append(t)
                else:
                    idx.extend(list(step[1]))
            except Exception as e:
                ctx.tally('outcome', 'rejected')
                ctx.tally('rejection_class', type(e).__name__)
                rejected += 1
                if hier and op == 'extend_partial_dup':
                    # a loop of appends: the first (valid) one legitimately stays
                    model.append(step[1][0])
                    ctx.tally('not_judged', 'hier_partial_dup_is_a_loop_of_appends')
                else:
                    try:
                        after = labels_now()
                    except Exception as e2:
                        ctx.violation('container_unusable_after_growth_call', detail={'step': op, 'exception': type(e2).__name__}, klass=dict(k2, exception=type(e2).__name__))
                        return
                    if not canon.seq_eq(after, before, canon.leq):
                        ctx.violation('rejected_growth_changed_container', detail={'growth': op, 'before': before, 'after': after, 'exception': type(e).__name__}, klass=dict(k2, growth='index_' + op))
                        return
            else:
                try:
                    after = labels_now()
                except Exception:
                    after = None
                ctx.violation('invalid_growth_accepted', detail={'growth': op, 'labels': repr(step[1]), 'after': after}, klass=dict(k2, growth='index_' + op))
                return
        elif op == 'extend_type_mismatch':
            # whole new outer branches, but the date depth of the other tree is a typed index this tree's plain depth cannot take:
            # the call is refused, and a refused growth leaves the tree as it was (checked below, and by every later step)
            depth = case['depth']
            other = sf.IndexHierarchy.from_labels([(o,) + ('m',) * (depth - 2) + (d,) for o in step[1] for d in ('2020-01-01', '2020-01-02')],
                                                  index_constructors=(sf.Index,) * (depth - 1) + (sf.IndexDate,))
            before = labels_now()
            try:
                idx.extend(other)
            except Exception as e:
                ctx.tally('outcome', 'rejected')
                ctx.tally('rejection_class', 'type_mismatch:' + type(e).__name__)
                rejected += 1
                try:
                    after = labels_now()
                except Exception as e2:
                    ctx.violation('container_unusable_after_growth_call', detail={'step': op, 'exception': type(e2).__name__, 'message': str(e2)[:200]},
                                  klass=dict(k2, exception=type(e2).__name__))
                    return
                if not canon.seq_eq(after, before, canon.leq):
                    ctx.violation('rejected_growth_changed_container', detail={'growth': op, 'before': before, 'after': after, 'exception': type(e).__name__}, klass=dict(k2, growth='index_' + op))
                    return
            else:
                ctx.tally('not_judged', 'type_mismatch_extend_accepted')
                return
        elif op == 'derive':
            what = step[1]
            try:
                if what == 'copy':
                    live.append((what, idx.copy()))
                elif what == 'static_init':
                    live.append((what, (sf.IndexHierarchy if hier else (sf.IndexDate if kind == 'IndexDate' else sf.Index))(idx)))
                elif what == 'go_init':
                    live.append((what, (sf.IndexHierarchyGO if hier else (sf.IndexDateGO if kind == 'IndexDate' else sf.IndexGO))(idx)))
                elif what == 'values':
                    live.append((what, idx.values))
                elif what == 'iloc' and model:
                    live.append((what, idx.iloc[:max(1, len(model) // 2)]))
                elif what == 'rename':
                    live.append((what, idx.rename('rn')))
                elif what == 'pickle':
                    live.append((what, pickle.loads(pickle.dumps(idx))))
                elif what == 'deepcopy':
                    live.append((what, copy.deepcopy(idx)))
                elif what == 'series_index' and model:
                    live.append((what, sf.Series(np.arange(len(model)), index=idx)))
                elif what == 'relabel' and not hier and kind not in ('IndexDate',):
                    live.append((what, idx.relabel(_lab)))
                elif what == 'to_frame_columns' and model:
                    live.append((what, sf.Frame(np.arange(len(model)).reshape(1, len(model)), columns=idx)))
                    live.append((what + '_go', sf.FrameGO(np.arange(len(model)).reshape(1, len(model)), columns=idx)))
            except Exception as e:
                ctx.tally('derivation_raised', f'{what}:{type(e).__name__}')
                continue
            live = [t if len(t) == 3 else (t[0], t[1], _snap_any(t[1])) for t in live]
            for t in live[-2:]:
                ctx.tally('derivation', 'index:' + t[0])
        else:
            what = step[1]
            if what == 'values':
                idx.values
            elif what == 'len':
                len(idx)
            elif what == 'iter':
                list(idx)
            elif what == 'positions':
                idx.positions
            elif what == 'contains' and model:
                model[0] in idx
        # append-only check
        try:
            now = labels_now()
        except Exception as e:
            ctx.violation('container_unusable_after_growth_call', detail={'step': op, 'exception': type(e).__name__, 'message': str(e)[:200]}, klass=dict(k2, exception=type(e).__name__))
            return
        if not canon.seq_eq(now, [cs(x) for x in model], canon.leq):
            ctx.violation('columns_not_append_only', detail={'expected': [cs(x) for x in model], 'got': now, 'step': op}, klass=k2)
            return
        for name, obj, snap0 in live:
            if _snap_any(obj) != snap0:
                ctx.violation('growth_visible_through_derived_container', detail={'derived': name, 'step': op, 'before': canon.brief(snap0, 400),
                                                                                  'after': canon.brief(_snap_any(obj), 400)}, klass=dict(klass, derived='index:' + name))
                return
    ctx.evaluation(repr(case), bool(grown or rejected))
