"""C07 — no lossy coercion when values of different types meet.

Every merge site is driven from a spec, so the harness knows which supplied element belongs in
which result cell; the element read back must be exactly the supplied one (a numeric element
may come back in a wider numeric type only if it is exactly equal, checked with Python ints)."""
import datetime
import itertools

import numpy as np

from sfmon import canon
from sfmon.canon import cs, veq
from sfmon.gen import values as V

PROPERTY = 'C07'
RULE = ('cases = (merge site, ordered dtype pair (A, B), elements of A, elements / fill element of B); the thorough tier '
        'enumerates the complete ordered-pair matrix of dtype kinds for every site, the quick tier samples it; a case is '
        'non-trivial when A != B; one evaluation per case; distinct = hash of the case')
EXPLANATION = 'dtype kinds: bool, int8/16/32/64, uint8/64, float16/32/64, complex128, <U1/<U5/<U20, S1/S5, M8[Y|M|D|s|ns], m8[D|s], object; str x bytes pairs excluded (statement)'
EXHAUSTIVE = {'quick': False, 'thorough': True}
ASSUMPTIONS = ['exactness judged on canonical scalars (type-kind + value); numeric widening accepted only when Python-exact',
               'a datetime64 read back as the equal datetime.date/datetime object counts as equal (NumPy == holds)']
TIERS = {'quick': {'shards': 8, 'budget_s': 120, 'min_nontrivial': 20000},
         'thorough': {'shards': 16, 'budget_s': 1500, 'min_nontrivial': 40000}}
ANCHORS = {
    'static_frame.core.util': ['resolve_dtype', 'resolve_dtype_iter', 'concat_resolved', 'full_for_fill', 'dtype_from_element',
                               'prepare_iter_for_array', 'iterable_to_array_1d', 'array_shift', 'union1d', 'ufunc_unique'],
    'static_frame.core.type_blocks': ['TypeBlocks._assign_from_iloc_by_unit', 'TypeBlocks.resize_blocks', 'TypeBlocks._shift_blocks',
                                      'TypeBlocks._blocks_to_array', 'TypeBlocks.fillna', 'TypeBlocks._fillna_directional_axis_1',
                                      'TypeBlocks.vstack_blocks_to_blocks'],
    'static_frame.core.series': ['Series.reindex', 'Series.shift', 'Series.from_concat', 'Series.from_overlay', 'Series.fillna'],
    'static_frame.core.frame': ['Frame.from_concat', 'Frame.from_records', 'Frame.from_overlay', 'Frame.reindex', 'Frame.unset_index'],
    'static_frame.core.index': ['_IndexGOMixin.append'],
}
REQUIRED_ANCHORS = ['util.resolve_dtype', 'util.concat_resolved', 'util.full_for_fill', 'util.dtype_from_element',
                    'util.prepare_iter_for_array', 'type_blocks.TypeBlocks._assign_from_iloc_by_unit', 'type_blocks.TypeBlocks._blocks_to_array']

DTYPES = list(V.DTYPE_POOLS)
SITES = ['reindex_fill', 'shift_fill', 'series_concat', 'frame_concat_rows', 'frame_concat_cols_union', 'assign_element',
         'assign_array', 'assign_frame_element', 'fillna_element', 'fillna_series', 'from_records', 'series_from_list', 'row_consolidation',
         'values_2d', 'iter_tuple', 'index_append', 'index_union', 'from_overlay', 'frame_reindex_fill', 'frame_shift_fill',
         'fillna_forward_axis1', 'unset_index', 'insert_fill', 'series_from_dict', 'frame_from_dict_records', 'index_from_list',
         'fillna_forward_axis1_block', 'fillna_backward_axis1_block', 'assign_frame_into_block', 'assign_bloc_frame_into_block', 'series_insert', 'grown_frame_rows', 'frame_overlay', 'pivot_stack_group']


TECHNIQUE = 'runtime monitoring: loss oracle (every supplied element must be read back equal) at 30 merge sites x the dtype-pair matrix, with arranged Python-value inputs and multi-column block sites'


def _is_str(dt):
    return dt.startswith('<U')


def _is_bytes(dt):
    return dt.startswith('S')


def _excluded(a, b):
    return (_is_str(a) and _is_bytes(b)) or (_is_bytes(a) and _is_str(b))


def _elems(dt, n, rng, missing_ok=True):
    out = []
    for _ in range(n):
        for _ in range(30):
            v = V.element(dt, rng, missing_ok)
            if dt == 'object' and isinstance(v, (bytes, tuple)):
                continue
            break
        out.append(v)
    return out


def probes(ctx):
    return [{'site': 'reindex_fill', 'a': 'int64', 'b': 'float64', 'av': [2 ** 60 + 1, 1, 2], 'bv': [float('nan'), 1.5, 2.5]},
            {'site': 'series_from_list', 'a': 'bool', 'b': 'int64', 'av': [True, False, True], 'bv': [7, 8, 9]}]


def generate(ctx):
    rng = ctx.rng
    pairs = [(a, b) for a in DTYPES for b in DTYPES if not _excluded(a, b)]
    if ctx.tier == 'thorough':
        work = [(s, a, b) for s in SITES for (a, b) in pairs]
        work = work[ctx.shard::ctx.nshards]
        reps = 16
    else:
        work = [(rng.choice(SITES), *rng.choice(pairs)) for _ in range(ctx.n(60000, 0))]
        reps = 1
    for site, a, b in work:
        for _ in range(reps):
            order = list(range(6))
            rng.shuffle(order)
            yield {'site': site, 'a': a, 'b': b, 'av': _elems(a, 3, rng), 'bv': _elems(b, 3, rng),
                   # order: arrangement of the six supplied elements for the build-from-Python-values sites (0..2 = av, 3..5 = bv);
                   # mask: which cells of the multi-column block sites are made missing
                   'order': order[:rng.choice([3, 4, 5, 6])], 'mask': [rng.random() < 0.45 for _ in range(9)]}


# --------------------------------------------------------------------------------------
# judging

def _lossless(sup, got):
    """supplied canonical scalar vs read-back canonical scalar."""
    if sup == got:
        return True
    if _missing_cs(sup) and _missing_cs(got):
        return True  # a missing marker stays a missing marker (NaN / None / NaT have no equality to preserve)
    if veq(sup, got):  # numeric widening with Python-exact equality, NaN == NaN, dt64 across units by instant
        return sup[0] != 'bool' and got[0] != 'bool'
    if canon.leq(sup, got):
        return True
    if sup[0] == 'bytes' and got[0] == 'str' and sup[1].decode('utf-8', 'replace') == got[1]:
        return True  # str x bytes resolves to str on purpose: outside the claim
    if sup[0] in ('dt64', 'td64') and sup[2] == canon.NAT and got[0] in ('dt64', 'td64') and got[2] == canon.NAT:
        return True
    return False


def _missing_cs(c):
    return c == ('None', None) or (c[0] == 'float' and c[1] == canon.NAN) or (c[0] in ('dt64', 'td64') and c[2] == canon.NAT) \
        or (c[0] == 'complex' and canon.NAN in c[1])


class Obs:
    """observations of one merge: (supplied element, element read back, role)."""

    def __init__(self):
        self.cells = []
        self.dtypes = []
        self.fed = None  # build-from-Python-values sites: the elements actually handed to the constructor

    def cell(self, supplied, got, role):
        self.cells.append((supplied, got, role))

    def untouched(self, expected_dtype, got_dtype, what):
        self.dtypes.append((str(expected_dtype), str(got_dtype), what))


def _series(vals, dt, index=None, name=None):
    import static_frame as sf
    return sf.Series(V.to_array(vals, dt), index=index, name=name)


def _read(arr_or_container, i):
    """element i read back through iloc / item access (never through .values of a mixed container)."""
    return arr_or_container.iloc[i] if hasattr(arr_or_container, 'iloc') else arr_or_container[i]


def run_site(case):
    import static_frame as sf
    site, a, b, av, bv = case['site'], case['a'], case['b'], case['av'], case['bv']
    o = Obs()
    n = len(av)
    if site == 'reindex_fill':
        s = _series(av, a, index=list('xyz'))
        r = s.reindex(['z', 'q', 'x', 'y', 'p'], fill_value=bv[0])
        for lab, sup, role in (('z', av[2], 'a'), ('x', av[0], 'a'), ('y', av[1], 'a'), ('q', bv[0], 'b'), ('p', bv[0], 'b')):
            o.cell(sup, r.loc[lab], role)
    elif site == 'shift_fill':
        s = _series(av, a)
        r = s.shift(1, fill_value=bv[0])
        o.cell(bv[0], r.iloc[0], 'b')
        o.cell(av[0], r.iloc[1], 'a')
        o.cell(av[1], r.iloc[2], 'a')
    elif site == 'series_concat':
        r = sf.Series.from_concat([_series(av, a, index=list('abc')), _series(bv, b, index=list('def'))])
        for i, v in enumerate(av):
            o.cell(v, r.iloc[i], 'a')
        for i, v in enumerate(bv):
            o.cell(v, r.iloc[n + i], 'b')
    elif site == 'frame_concat_rows':
        fa = sf.Frame.from_items([('c', V.to_array(av, a)), ('k', np.array([1, 2, 3], dtype=np.int16))], index=list('abc'))
        fb = sf.Frame.from_items([('c', V.to_array(bv, b)), ('k', np.array([4, 5, 6], dtype=np.int16))], index=list('def'))
        r = sf.Frame.from_concat([fa, fb])
        for i, v in enumerate(av):
            o.cell(v, r.iloc[i, 0], 'a')
        for i, v in enumerate(bv):
            o.cell(v, r.iloc[n + i, 0], 'b')
        o.untouched('int16', r.dtypes.values[1], 'unaddressed column k')
    elif site == 'frame_concat_cols_union':
        fa = sf.Frame.from_items([('ca', V.to_array(av, a))], index=list('abc'))
        fb = sf.Frame.from_items([('cb', V.to_array(bv, b))], index=list('bcd'))
        r = sf.Frame.from_concat([fa, fb], axis=1, fill_value=None)
        for i, lab in enumerate('abc'):
            o.cell(av[i], r.loc[lab, 'ca'], 'a')
        for i, lab in enumerate('bcd'):
            o.cell(bv[i], r.loc[lab, 'cb'], 'b')
    elif site == 'assign_element':
        s = _series(av, a)
        r = s.assign.iloc[1](bv[0])
        o.cell(av[0], r.iloc[0], 'a')
        o.cell(bv[0], r.iloc[1], 'b')
        o.cell(av[2], r.iloc[2], 'a')
    elif site == 'assign_array':
        s = _series(av, a)
        r = s.assign.iloc[[0, 2]](V.to_array(bv[:2], b))
        o.cell(bv[0], r.iloc[0], 'b')
        o.cell(av[1], r.iloc[1], 'a')
        o.cell(bv[1], r.iloc[2], 'b')
    elif site == 'assign_frame_element':
        f = sf.Frame.from_items([('c', V.to_array(av, a)), ('k', np.array([1, 2, 3], dtype=np.int16)), ('u', np.array(['p', 'q', 'r']))])
        r = f.assign.iloc[1, 0](bv[0])
        o.cell(av[0], r.iloc[0, 0], 'a')
        o.cell(bv[0], r.iloc[1, 0], 'b')
        o.cell(av[2], r.iloc[2, 0], 'a')
        o.untouched('int16', r.dtypes.values[1], 'unaddressed column k')
        o.untouched('<U1', r.dtypes.values[2], 'unaddressed column u')
    elif site == 'fillna_element':
        miss = [i for i, v in enumerate(av) if canon.is_missing(v)]
        if not miss or canon.is_missing(bv[0]):
            return None
        s = _series(av, a)
        r = s.fillna(bv[0])
        for i, v in enumerate(av):
            if i in miss:
                o.cell(bv[0], r.iloc[i], 'b')
            else:
                o.cell(v, r.iloc[i], 'a')
    elif site == 'fillna_series':
        miss = [i for i, v in enumerate(av) if canon.is_missing(v)]
        if not miss:
            return None
        s = _series(av, a, index=list('abc'))
        r = s.fillna(_series(bv, b, index=list('abc')))
        for i, v in enumerate(av):
            if i in miss:
                if not canon.is_missing(bv[i]):
                    o.cell(bv[i], r.iloc[i], 'b')
            else:
                o.cell(v, r.iloc[i], 'a')
    elif site == 'from_records':
        seq = _ordered(case) or ((av[0], 'a'), (bv[0], 'b'), (av[1], 'a'))
        o.fed = [v for v, _ in seq]
        r = sf.Frame.from_records([(v, i) for i, (v, _) in enumerate(seq)], columns=('c', 'k'))
        for i, (v, role) in enumerate(seq):
            o.cell(v, r.iloc[i, 0], role)
    elif site == 'series_from_list':
        seq = _ordered(case) or ((av[0], 'a'), (bv[0], 'b'), (av[1], 'a'), (bv[1], 'b'))
        o.fed = [v for v, _ in seq]
        r = sf.Series([v for v, _ in seq])
        for i, (v, role) in enumerate(seq):
            o.cell(v, r.iloc[i], role)
    elif site == 'series_from_dict':
        seq = _ordered(case) or ((av[0], 'a'), (bv[0], 'b'), (av[1], 'a'))
        o.fed = [v for v, _ in seq]
        r = sf.Series.from_dict({'pqrstu'[i]: v for i, (v, _) in enumerate(seq)})
        for i, (v, role) in enumerate(seq):
            o.cell(v, r.loc['pqrstu'[i]], role)
    elif site == 'frame_from_dict_records':
        seq = _ordered(case) or ((av[0], 'a'), (bv[0], 'b'))
        o.fed = [v for v, _ in seq]
        r = sf.Frame.from_dict_records([{'c': v, 'k': i} for i, (v, _) in enumerate(seq)])
        for i, (v, role) in enumerate(seq):
            o.cell(v, r.iloc[i, 0], role)
    elif site in ('row_consolidation', 'values_2d', 'iter_tuple'):
        f = sf.Frame.from_items([('ca', V.to_array(av, a)), ('cb', V.to_array(bv, b))])
        for i in range(n):
            if site == 'row_consolidation':
                row = f.iloc[i]
                ga, gb = row.iloc[0], row.iloc[1]
            elif site == 'values_2d':
                vals = f.values
                ga, gb = vals[i, 0], vals[i, 1]
            else:
                t = list(f.iter_tuple(axis=1, constructor=tuple))[i]
                ga, gb = t[0], t[1]
            o.cell(av[i], ga, 'a')
            o.cell(bv[i], gb, 'b')
    elif site == 'index_append':
        if any(canon.is_missing(v) for v in av + bv[:1]):
            return None
        labels = _distinct(av)
        if any(_same_label(bv[0], x) for x in labels):
            return None
        idx = sf.IndexGO(V.to_array(labels, a))
        idx.append(bv[0])
        vals = list(idx)
        for i, v in enumerate(labels):
            o.cell(v, vals[i], 'a')
        o.cell(bv[0], vals[len(labels)], 'b')
    elif site == 'index_from_list':
        if any(canon.is_missing(v) for v in av + bv):
            return None
        labels = _distinct([av[0], bv[0], av[1]])
        if len(labels) < 2:
            return None
        o.fed = list(labels)
        idx = sf.Index(labels)
        for v, g in zip(labels, list(idx)):
            o.cell(v, g, 'a' if any(v is x for x in av) else 'b')
    elif site == 'index_union':
        if any(canon.is_missing(v) for v in av + bv):
            return None
        la, lb = _distinct(av), _distinct(bv)
        if any(_same_label(x, y) and cs(x)[0] != cs(y)[0] for x in la for y in lb):
            return None  # equal labels of different kinds are one set member: nothing to preserve
        r = sf.Index(V.to_array(la, a)).union(sf.Index(V.to_array(lb, b)))
        got = list(r)
        for sup, role in [(v, 'a') for v in la] + [(v, 'b') for v in lb]:
            match = [g for g in got if _same_label(sup, g)]
            if not match:
                o.cell(sup, ('<label absent from union>',), role)
            else:
                # among the equal labels there must be one that is exactly the supplied element
                best = next((g for g in match if _lossless(cs(sup), cs(g))), match[0])
                o.cell(sup, best, role)
    elif site == 'from_overlay':
        miss = [i for i, v in enumerate(av) if canon.is_missing(v)]
        r = sf.Series.from_overlay([_series(av, a, index=list('abc')), _series(bv, b, index=list('abc'))])
        for i, v in enumerate(av):
            if i in miss:
                if not canon.is_missing(bv[i]):
                    o.cell(bv[i], r.iloc[i], 'b')
            else:
                o.cell(v, r.iloc[i], 'a')
    elif site == 'frame_reindex_fill':
        f = sf.Frame.from_items([('c', V.to_array(av, a)), ('k', np.array([1, 2, 3], dtype=np.int16))], index=list('xyz'))
        r = f.reindex(index=['z', 'q', 'x'], columns=['c', 'new', 'k'], fill_value=bv[0])
        o.cell(av[2], r.loc['z', 'c'], 'a')
        o.cell(av[0], r.loc['x', 'c'], 'a')
        o.cell(bv[0], r.loc['q', 'c'], 'b')
        o.cell(bv[0], r.loc['z', 'new'], 'b')
        o.cell(1, r.loc['x', 'k'], 'k')
    elif site == 'frame_shift_fill':
        f = sf.Frame.from_items([('c', V.to_array(av, a)), ('k', np.array([1, 2, 3], dtype=np.int16))])
        r = f.shift(1, 0, fill_value=bv[0])
        o.cell(bv[0], r.iloc[0, 0], 'b')
        o.cell(av[0], r.iloc[1, 0], 'a')
        o.cell(av[1], r.iloc[2, 0], 'a')
        o.cell(1, r.iloc[1, 1], 'k')
    elif site == 'fillna_forward_axis1':
        miss = [i for i, v in enumerate(bv) if canon.is_missing(v)]
        if not miss:
            return None
        f = sf.Frame.from_items([('ca', V.to_array(av, a)), ('cb', V.to_array(bv, b))])
        r = f.fillna_forward(axis=1)
        for i in range(n):
            o.cell(av[i], r.iloc[i, 0], 'a')
            if i in miss:
                if not canon.is_missing(av[i]):
                    o.cell(av[i], r.iloc[i, 1], 'a')
            else:
                o.cell(bv[i], r.iloc[i, 1], 'b')
    elif site in ('fillna_forward_axis1_block', 'fillna_backward_axis1_block'):
        # a column of dtype a beside a two-column 2-D block of dtype b with missing cells: values carried across the block
        # boundary (and within the block) must arrive unchanged
        from static_frame.core.type_blocks import TypeBlocks
        mb = _missing_for(b)
        if mb is None:
            return None
        mask = case.get('mask') or [False] * 9
        bw = bv[1:] + bv[:1]
        col1 = [mb if mask[i] else bv[i] for i in range(n)]
        col2 = [mb if mask[3 + i] else bw[i] for i in range(n)]
        if not any(canon.is_missing(v) for v in col1 + col2):
            return None
        block = np.empty((n, 2), dtype=np.dtype(b))
        block[:, 0] = V.to_array(col1, b)
        block[:, 1] = V.to_array(col2, b)
        block.flags.writeable = False
        a_arr = V.to_array(av, a)
        a_arr.flags.writeable = False
        forward = site.startswith('fillna_forward')
        f = sf.Frame(TypeBlocks.from_blocks([a_arr, block] if forward else [block, a_arr]))
        r = f.fillna_forward(axis=1) if forward else f.fillna_backward(axis=1)
        for i in range(n):
            line = [(av[i], 'a'), (col1[i], 'b'), (col2[i], 'b')] if forward else [(av[i], 'a'), (col2[i], 'b'), (col1[i], 'b')]
            carried = None
            for j, (v, role) in enumerate(line):
                pos = j if forward else 2 - j
                if canon.is_missing(v) and carried is not None:
                    o.cell(carried[0], r.iloc[i, pos], carried[1])
                else:
                    o.cell(v, r.iloc[i, pos], role)
                    if not canon.is_missing(v):
                        carried = (v, role)
    elif site == 'assign_frame_into_block':
        # target: two columns of dtype a consolidated in one 2-D block; value: a Frame whose two columns have dtypes a and b
        from static_frame.core.type_blocks import TypeBlocks
        aw = av[1:] + av[:1]
        block = np.empty((n, 2), dtype=np.dtype(a))
        block[:, 0] = V.to_array(av, a)
        block[:, 1] = V.to_array(aw, a)
        block.flags.writeable = False
        f = sf.Frame(TypeBlocks.from_blocks([block, np.array([1, 2, 3], dtype=np.int16)]), index=list('xyz'), columns=['p', 'q', 'k'])
        rows = ['x', 'z']
        swap = bool((case.get('mask') or [False])[0])
        vcols = [('p', a, [av[2], av[0]]), ('q', b, [bv[0], bv[1]])]
        if swap:  # the differently typed value column comes first
            vcols = [('p', b, [bv[0], bv[1]]), ('q', a, [av[2], av[0]])]
        value = sf.Frame.from_items([(lab, V.to_array(vals, dt)) for lab, dt, vals in vcols], index=rows)
        r = f.assign.loc[rows, ['p', 'q']](value)
        for lab, dt, vals in vcols:
            for rl, v in zip(rows, vals):
                o.cell(v, r.loc[rl, lab], 'a' if dt == a else 'b')
        o.cell(av[1], r.loc['y', 'p'], 'a')
        o.cell(aw[1], r.loc['y', 'q'], 'a')
        o.untouched('int16', r.dtypes.values[2], 'unaddressed column k')
    elif site == 'assign_bloc_frame_into_block':
        # as above through assign.bloc: a Boolean Frame key over two rows of the 2-D block, a Frame value (covering every row, so that
        # it is not widened by a reindex) whose columns have dtypes a and b
        from static_frame.core.type_blocks import TypeBlocks
        aw = av[1:] + av[:1]
        block = np.empty((n, 2), dtype=np.dtype(a))
        block[:, 0] = V.to_array(av, a)
        block[:, 1] = V.to_array(aw, a)
        block.flags.writeable = False
        f = sf.Frame(TypeBlocks.from_blocks([block, np.array([1, 2, 3], dtype=np.int16)]), index=list('xyz'), columns=['p', 'q', 'k'])
        swap = bool((case.get('mask') or [False])[0])
        vcols = [('p', a, [av[2], av[0], av[1]]), ('q', b, [bv[0], bv[1], bv[2]])]
        if swap:
            vcols = [('p', b, [bv[0], bv[1], bv[2]]), ('q', a, [av[2], av[0], av[1]])]
        value = sf.Frame.from_items([(lab, V.to_array(vals, dt)) for lab, dt, vals in vcols], index=list('xyz'))
        key = sf.Frame(np.array([[True, True, False], [False, False, False], [True, True, False]]), index=list('xyz'), columns=['p', 'q', 'k'])
        r = f.assign.bloc[key](value)
        for lab, dt, vals in vcols:
            for rl, v in (('x', vals[0]), ('z', vals[2])):
                o.cell(v, r.loc[rl, lab], 'a' if dt == a else 'b')
        o.cell(av[1], r.loc['y', 'p'], 'a')
        o.cell(aw[1], r.loc['y', 'q'], 'a')
    elif site == 'series_insert':
        # insertion of a Series of dtype b into a Series of dtype a at every position, before and after
        s1 = _series(av, a, index=list('xyz'))
        s2 = _series(bv[:2], b, index=['m', 'n'])
        pos = (case.get('order') or [0])[0] % 3
        after = bool((case.get('mask') or [False, False])[1])
        r = s1.insert_after('xyz'[pos], s2) if after else s1.insert_before('xyz'[pos], s2)
        for i, lab in enumerate('xyz'):
            o.cell(av[i], r.loc[lab], 'a')
        o.cell(bv[0], r.loc['m'], 'b')
        o.cell(bv[1], r.loc['n'], 'b')
    elif site == 'grown_frame_rows':
        # a grow-only frame that received its second column later: rows and .values consolidate what the frame holds now
        f = sf.FrameGO.from_items([('ca', V.to_array(av, a))])
        order = case.get('order') or [0]
        grow = (order[1] if len(order) > 1 else 0) % 4
        if (case.get('mask') or [False])[0]:
            f.values  # the row dtype has been resolved once before the frame grows
        if grow == 0:
            f['cb'] = V.to_array(bv, b)
        elif grow == 1:
            f.extend(sf.Frame.from_items([('cb', V.to_array(bv, b))]))
        elif grow == 2:
            f.extend(sf.Series(V.to_array(bv, b), name='cb'))
        else:
            f.extend_items([('cb', V.to_array(bv, b))])
        how = order[0] % 6
        for i in range(n):
            if how == 0:
                row = f.iloc[i]
                ga, gb = row.iloc[0], row.iloc[1]
            elif how == 1:
                vals = f.values
                ga, gb = vals[i, 0], vals[i, 1]
            elif how == 2:
                t = list(f.iter_tuple(axis=1, constructor=tuple))[i]
                ga, gb = t[0], t[1]
            elif how == 3:
                arr = list(f.iter_array(axis=1))[i]
                ga, gb = arr[0], arr[1]
            elif how == 4:
                tr = f.transpose()
                ga, gb = tr.iloc[0, i], tr.iloc[1, i]
            else:
                row = list(f.iter_series(axis=1))[i]
                ga, gb = row.iloc[0], row.iloc[1]
            o.cell(av[i], ga, 'a')
            o.cell(bv[i], gb, 'b')
    elif site == 'frame_overlay':
        # first frame: two columns of dtype a, both partially missing, stored as one 2-D block or as two 1-D blocks; the second frame
        # supplies a column of dtype a and a column of dtype b: every filled cell must hold exactly the supplied element
        from static_frame.core.type_blocks import TypeBlocks
        ma = _missing_for(a)
        if ma is None:
            return None
        mask = case.get('mask') or [False] * 9
        aw = av[1:] + av[:1]
        col1 = [av[0], ma, av[2]]
        col2 = [ma, av[1], ma]
        if mask[0]:
            block = np.empty((n, 2), dtype=np.dtype(a))
            block[:, 0] = V.to_array(col1, a)
            block[:, 1] = V.to_array(col2, a)
            block.flags.writeable = False
            blocks = [block]
        else:
            blocks = [V.to_array(col1, a), V.to_array(col2, a)]
            for x in blocks:
                x.flags.writeable = False
        f1 = sf.Frame(TypeBlocks.from_blocks(blocks), index=list('xyz'), columns=['p', 'q'])
        fills = {'p': (aw, a, 'a'), 'q': (bv, b, 'b')} if not mask[1] else {'p': (bv, b, 'b'), 'q': (aw, a, 'a')}
        f2 = sf.Frame.from_items([(lab, V.to_array(vals, dt)) for lab, (vals, dt, _) in fills.items()], index=list('xyz'))
        r = sf.Frame.from_overlay([f1, f2])
        for lab, col in (('p', col1), ('q', col2)):
            vals, dt, role = fills[lab]
            for i, rl in enumerate('xyz'):
                if canon.is_missing(col[i]):
                    if not canon.is_missing(vals[i]):
                        o.cell(vals[i], r.loc[rl, lab], role)
                else:
                    o.cell(col[i], r.loc[rl, lab], 'a')
    elif site == 'pivot_stack_group':
        # two columns under one outer label, dtypes a and b: stacking the inner depth puts both into one result column
        order = (('x', av, a, 'a'), ('y', bv, b, 'b')) if not (case.get('mask') or [False, False, False])[2] else (('x', bv, b, 'b'), ('y', av, a, 'a'))
        f = sf.Frame.from_items([(('g', inner), V.to_array(vals, dt)) for inner, vals, dt, _ in order], index=list('rst'),
                                columns_constructor=sf.IndexHierarchy.from_labels)
        r = f.pivot_stack(-1)
        for inner, vals, dt, role in order:
            for i, rl in enumerate('rst'):
                o.cell(vals[i], r.loc[(rl, inner), 'g'], role)
    elif site == 'unset_index':
        if any(canon.is_missing(v) for v in av):
            return None
        labels = _distinct(av)
        f = sf.Frame.from_items([('cb', V.to_array(bv[:len(labels)], b))], index=sf.Index(V.to_array(labels, a), name='ix'))
        r = f.unset_index()
        for i, v in enumerate(labels):
            o.cell(v, r.iloc[i, 0], 'a')
            o.cell(bv[i], r.iloc[i, 1], 'b')
    elif site == 'insert_fill':
        f = sf.Frame.from_items([('c', V.to_array(av, a))], index=list('xyz'))
        s = _series(bv[:2], b, index=['y', 'q'], name='ins')
        r = f.insert_after('c', s, fill_value=None)
        for i, v in enumerate(av):
            o.cell(v, r.iloc[i, 0], 'a')
        o.cell(bv[0], r.loc['y', 'ins'], 'b')
        o.untouched(V.to_array(av, a).dtype, r.dtypes.values[0], 'unaddressed column c')
    else:
        raise KeyError(site)
    return o


def _missing_for(dt):
    k = np.dtype(dt).kind
    if k == 'f':
        return float('nan')
    if k == 'c':
        return complex(float('nan'), 0)
    if k == 'O':
        return None
    if k in 'Mm':
        return np.array('NaT', dtype=dt)[()]
    return None


def _ordered(case):
    """the supplied elements in the case's arrangement: [(element, role)], or None for cases recorded before arrangements existed."""
    if not case.get('order'):
        return None
    pool = [(v, 'a') for v in case['av']] + [(v, 'b') for v in case['bv']]
    return [pool[i] for i in case['order']]


def _same_label(x, y):
    try:
        return bool(x == y)
    except Exception:
        return False


def _distinct(vals):
    out = []
    for v in vals:
        if not any(_same_label(v, x) for x in out):
            out.append(v)
    return out


def _big(v):
    return isinstance(v, (int, np.integer)) and not isinstance(v, (bool, np.bool_, np.timedelta64)) and abs(int(v)) > 2 ** 53


def check(case, ctx):
    site, a, b = case['site'], case['a'], case['b']
    ctx.evaluation(repr(case), a != b)
    ctx.tally('site', site)
    ctx.tally('dtype_pair', f'{a}|{b}')
    ctx.sample({'site': site, 'a': a, 'b': b, 'av': repr(case['av']), 'bv': repr(case['bv'])})
    base = {'site': site, 'a': a, 'b': b, 'kind_a': np.dtype(a).kind, 'kind_b': np.dtype(b).kind}
    try:
        o = run_site(case)
    except Exception as e:
        # a merge that raises loses nothing; whether it should raise is not C07's claim
        ctx.tally('raised', f'{site}:{type(e).__name__}')
        return
    if o is None:
        ctx.tally('skipped', site)
        return
    all_supplied = list(case['av']) + list(case['bv'])
    for sup, got, role in o.cells:
        cs_sup, cs_got = cs(sup), cs(got)
        if _lossless(cs_sup, cs_got):
            continue
        klass = dict(base, role=role, supplied_kind=cs_sup[0], got_kind=cs_got[0],
                     supplied_big_int=_big(sup),
                     any_big_int=any(_big(v) for v in all_supplied),
                     float_partner=(any(isinstance(v, (float, np.floating, complex, np.complexfloating)) for v in o.fed) if o.fed is not None else
                                    (any(isinstance(v, (float, np.floating, complex, np.complexfloating)) for v in all_supplied)
                                     or np.dtype(a).kind in 'fc' or np.dtype(b).kind in 'fc')),
                     signed_unsigned_mix={np.dtype(a).kind, np.dtype(b).kind} == {'i', 'u'},
                     python_values_route=site in ('series_from_list', 'from_records', 'series_from_dict', 'frame_from_dict_records', 'index_from_list'))
        ctx.violation('element_changed', detail={'supplied': cs_sup, 'read_back': cs_got, 'case': repr(case)[:600]}, klass=klass)
        return
    for exp_dt, got_dt, what in o.dtypes:
        if exp_dt != got_dt:
            ctx.violation('unaddressed_dtype_changed', detail={'expected': exp_dt, 'got': got_dt, 'what': what}, klass=dict(base, what=what))
            return
