"""Known-finding predicates of C20 (reshaping / relational operations).  Each tests the
*input class* recorded in `klass` (and the kind of failure in `what`), never a wrong value."""
from sfmon.findings import predicate


def _noncomposite(w):
    k = w['klass']
    return k.get('op') == 'join' and k.get('composite_index') is False and k.get('path') == 'one_to_one_noncomposite'


@predicate
def c20_join_noncomposite_rows_placed_by_label(w):
    """composite_index=False, one-to-one matches, indexes of one kind (both flat, or both hierarchical when the key is
    wider than the labels): the result is laid
    out on one side's labels and the other side is aligned *by label*; wrong exactly when a
    matched pair does not share its label or an unmatched row's label exists on the other side."""
    if w['what'] != 'join_rows_mismatch' or not _noncomposite(w):
        return False
    k = w['klass']
    if k.get('union_coerces_labels'):
        return False
    if k.get('hierarchical_index') and not (k.get('hierarchical_sides') == 2 and not k.get('hierarchy_has_datetime_level')):
        return False  # one hierarchical side / datetime levels: c20_join_noncomposite_hierarchical_index
    how = k.get('how')
    differ = not k.get('matched_pairs_share_labels')
    ul, ur = k.get('unmatched_left_label_in_right'), k.get('unmatched_right_label_in_left')
    if how == 'left':
        return bool(ul)
    if how == 'right':
        return bool(differ or ur or ul)
    if how == 'outer':
        return bool(differ or ul or ur)
    return False


@predicate
def c20_join_noncomposite_hierarchical_index(w):
    """composite_index=False where exactly one frame has a hierarchical index, or both have one
    with a datetime64 level (flattening the labels to tuples turns datetime64 into date objects)."""
    k = w['klass']
    if w['what'] not in ('join_rows_mismatch', 'join_raised') or not _noncomposite(w):
        return False
    sides = k.get('hierarchical_sides')
    return sides == 1 or (sides == 2 and bool(k.get('hierarchy_has_datetime_level')))


@predicate
def c20_join_noncomposite_index_kinds_coerced(w):
    """composite_index=False where the union of the two indexes re-types labels (datetime index vs another
    kind, float vs int labels)."""
    k = w['klass']
    return (w['what'] in ('join_rows_mismatch', 'join_raised') and _noncomposite(w) and not k.get('hierarchical_index')
            and bool(k.get('union_coerces_labels')))


@predicate
def c20_join_right_column_retyped(w):
    return w['what'] == 'join_right_column_retyped_by_list_inference' and bool(w['klass'].get('hazards'))


@predicate
def c20_pivot_single_row_group(w):
    return w['what'] == 'pivot_single_row_group_not_aggregated' and w['klass'].get('wrong_cell_group') == 'single_row'


@predicate
def c20_pivot_result_cast_to_source_dtype(w):
    k = w['klass']
    return (w['what'] == 'pivot_aggregate_cast_to_source_dtype' and k.get('n_data_fields', 0) > 1 and k.get('n_funcs') == 1)


@predicate
def c20_pivot_heterogeneous_index_fields(w):
    k = w['klass']
    return (w['what'] == 'pivot_raised' and k.get('exception') == 'ErrorInitIndex' and k.get('n_index_fields', 0) > 1
            and bool(k.get('index_fields_object')) and k.get('first_appearance_tree') is False)


@predicate
def c20_pivot_columns_field_label_not_iterable(w):
    k = w['klass']
    return (w['what'] == 'pivot_raised' and k.get('exception') == 'TypeError' and k.get('n_columns_fields', 0) >= 1
            and k.get('n_data_fields', 0) > 1 and k.get('columns_field_labels_iterable') is False)


@predicate
def c20_pivot_boolean_index_field(w):
    k = w['klass']
    return (w['what'] == 'pivot_raised' and k.get('exception') == 'IndexError' and bool(k.get('index_field_bool'))
            and k.get('n_index_fields') == 1 and k.get('n_columns_fields', 0) >= 1)


@predicate
def c20_set_index_every_column_dropped(w):
    k = w['klass']
    return (w['what'] in ('set_index_raised', 'set_index_list_raised', 'set_index_hierarchy_raised')
            and k.get('exception') == 'ErrorInitTypeBlocks' and bool(k.get('all_columns')) and bool(k.get('drop')))


@predicate
def c20_set_index_hierarchy_hierarchical_columns(w):
    k = w['klass']
    return w['what'] == 'set_index_hierarchy_raised' and k.get('exception') == 'TypeError' and bool(k.get('hierarchical_columns'))


@predicate
def c20_unstack_fill_dtype_overwritten(w):
    k = w['klass']
    if not k.get('fill_before_present_last_group'):
        return False
    if w['what'] == 'pivot_unstack_raised':
        return k.get('exception') in ('ValueError', 'TypeError')
    return w['what'] in ('pivot_unstack_empty_cell_not_fill', 'stack_unstack_roundtrip_extra_cell_not_fill')


@predicate
def c20_pivot_object_index_fields_with_datetime(w):
    """several index fields of different kinds, one of them datetime64, with columns_fields: the
    index is built from the object-converted keys (date objects) while the per-column-group frames
    are keyed by datetime64."""
    k = w['klass']
    return (w['what'] == 'pivot_cell_mismatch' and k.get('n_index_fields', 0) > 1 and bool(k.get('index_fields_object'))
            and bool(k.get('index_fields_have_datetime')) and k.get('n_columns_fields', 0) >= 1)
