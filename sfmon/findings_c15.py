"""Known-finding predicates for C15 (axis reductions).  Every predicate tests the input class recorded in
`klass` (function, axis, skipna, layout class, dtype kinds, row count, whether the true result fits the row dtype)
and the kind of disagreement (`what`), never the wrong value."""
from sfmon.findings import predicate

_RAISED = 'frame_raised_but_lines_reduce'
_CELL = 'cell_mismatch'
_UNITY = ('sum', 'min', 'max', 'mean', 'median', 'prod')
_ARG = ('loc_min', 'iloc_min', 'loc_max', 'iloc_max')
_REDUCE = ('sum', 'prod', 'min', 'max', 'mean', 'median', 'std', 'var', 'all', 'any')


def _unfit(w):
    k = w['klass']
    if w['what'] == _CELL:
        # the true result is not representable in the row dtype, or (float / complex row dtype) an input already is not
        return k.get('ref_fits_row_dtype') is False or (k.get('row_kind') in ('f', 'c') and k.get('big_int') is True
                                                        and k.get('line_kind') in ('i', 'u'))
    return k.get('any_ref_unfit') is True


@predicate
def c15_out_buffer_row_dtype(w, row_kind, fns, exceptions=()):
    """axis-0 reduction of a multi-block frame whose true per-column result cannot be held by the row dtype
    (the dtype of the `out` buffer): small signed ints, uint8, bool, <U n, float64 for ints beyond 2**53."""
    k = w['klass']
    if k.get('axis') != 0 or k.get('layout') != 'multi' or k.get('fn') not in fns or k.get('row_kind') != row_kind:
        return False
    if k.get('nrows') == '1' and k.get('skipna') is False and w['what'] != _CELL:
        return False
    if w['what'] == _RAISED:
        return k.get('exception') in exceptions and _unfit(w)
    return w['what'] == _CELL and _unfit(w) and k.get('got_is_array') is not True


@predicate
def c15_values_consolidation_big_int(w):
    """cumsum / cumprod run on Frame.values: an int column beside a float column is computed in float64 and
    results beyond 2**53 lose their low bits."""
    k = w['klass']
    return (w['what'] == _CELL and k.get('fn') in ('cumsum', 'cumprod') and k.get('axis') == 0 and k.get('line_kind') in ('i', 'u')
            and k.get('values_kind') in ('f', 'c') and (k.get('ref_fits_row_dtype') is False or k.get('big_int') is True))


@predicate
def c15_complex_std_var_multiblock(w):
    """complex columns of a multi-block frame under a function with a float out dtype: std / var always (dtypes=(float64,)),
    mean / median when the row dtype is not complex (e.g. object): blocks are cast to float64, imaginary part dropped."""
    k = w['klass']
    return (w['what'] == _CELL and k.get('axis') == 0 and k.get('layout') == 'multi' and k.get('line_kind') == 'c'
            and (k.get('fn') in ('std', 'var') or (k.get('fn') in ('mean', 'median') and k.get('row_kind') != 'c')))


@predicate
def c15_size_one_unity(w):
    """1-row multi-block frame, axis 0, skipna=False, function with size_one_unity=True and a width-1 block: the
    size-1 array itself is assigned into out[pos]."""
    k = w['klass']
    if not (k.get('axis') == 0 and k.get('nrows') == '1' and k.get('skipna') is False and k.get('fn') in _UNITY
            and k.get('layout') == 'multi' and k.get('has_width1_block') is True):
        return False
    if w['what'] == _RAISED:
        return k.get('exception') in ('ValueError', 'TypeError')
    return w['what'] in (_CELL, 'missing_treated_as_number') and k.get('got_is_array') is True and k.get('block') in ('1d', '2d1')


@predicate
def c15_zero_row_logical_bool_result(w):
    """all / any over 0 rows: the block-level function returns a Python bool, `.flags` fails (unified layout, and
    axis 1 in every layout)."""
    k = w['klass']
    return (w['what'] == _RAISED and k.get('fn') in ('all', 'any') and k.get('nrows') == '0' and k.get('exception') == 'AttributeError'
            and (k.get('layout') == 'unified' or k.get('axis') == 1))


@predicate
def c15_zero_row_logical_uninitialised(w):
    k = w['klass']
    return (w['what'] == 'zero_row_logical_out_not_written' and k.get('fn') in ('all', 'any') and k.get('nrows') == '0'
            and k.get('axis') == 0 and k.get('layout') == 'multi' and k.get('has_2d_block') is True
            # the bool-returning shortcut for empty arrays of every other kind was repaired (4463d33); what remains is the NaT branch
            and bool(k.get('unwritten_kinds')) and set(k.get('unwritten_kinds')) <= set('Mm'))


@predicate
def c15_object_2d_median_std_var(w):
    """median / std / var of a 2-D object array (object block, or rows consolidated to object such as bool + number):
    NumPy raises on the 2-D object array although every isolated 1-D line reduces."""
    k = w['klass']
    return (w['what'] == _RAISED and k.get('fn') in ('median', 'std', 'var') and 'O' in (k.get('line_kinds') or '')
            and k.get('in_domain') is False and k.get('exception') in ('TypeError', 'ZeroDivisionError', 'AttributeError'))


@predicate
def c15_zero_column_frame(w):
    """a frame without columns has no block: the unified branch indexes self._blocks[0]."""
    k = w['klass']
    return (w['what'] in (_RAISED, 'exception_class_mismatch') and k.get('ncols') == '0' and k.get('fn') in _REDUCE
            and k.get('exception') == 'IndexError')


@predicate
def c15_loc_minmax_hierarchical_index(w):
    """loc_min / loc_max when the labels to return come from an IndexHierarchy: index.values[post] is 2-D."""
    k = w['klass']
    return (w['what'] == _RAISED and k.get('fn') in ('loc_min', 'loc_max') and str(k.get('index_kind')).startswith('hier')
            and k.get('exception') == 'ErrorInitSeries')


@predicate
def c15_loc_minmax_no_lines(w):
    """loc_min / loc_max with skipna=False on a frame without lines along the other axis: `isna_axis.all()` is
    vacuously true, a float result is produced and rejected."""
    k = w['klass']
    return (w['what'] == _RAISED and k.get('fn') in ('loc_min', 'loc_max') and k.get('skipna') is False
            and k.get('lines_missing') == 'no_lines' and k.get('exception') == 'RuntimeError')


@predicate
def c15_argminmax_all_missing_line(w):
    """arg functions on a frame where some line is entirely missing: np.nanargmin/nanargmax raise for the whole
    frame (the Series path answers NaN / RuntimeError for that line only)."""
    k = w['klass']
    return (w['what'] in (_RAISED, 'exception_class_mismatch') and k.get('fn') in _ARG and k.get('lines_missing') == 'some_line_all'
            and k.get('exception') == 'ValueError')


@predicate
def c15_datetime_skipna_ignored(w):
    """min / max of datetime64 / timedelta64 lines holding NaT with skipna=True: util.ufunc_axis_skipna always takes
    the non-skipna function for kinds M/m, so NaT is returned instead of being ignored (Series and Frame alike)."""
    k = w['klass']
    if not (k.get('fn') in ('min', 'max') and k.get('skipna') is True and k.get('line_kind') in ('M', 'm')
            and k.get('line_missing') == 'some'):
        return False
    if w['what'] == 'series_path_differs_from_model':
        return True
    return w['what'] == _CELL and k.get('series_path_ok') is False and k.get('row_kind') in ('M', 'm')


@predicate
def c15_datetime_logical_skipna_ignored(w):
    """all / any(skipna=True) on axis 1 of a frame with a datetime64 / timedelta64 block holding NaT: the block is routed to
    the non-skipna function, which rejects NaT, although each (object) row reduces."""
    k = w['klass']
    return (w['what'] == _RAISED and k.get('fn') in ('all', 'any') and k.get('skipna') is True and k.get('axis') == 1
            and any(c in (k.get('kinds') or '') for c in 'Mm') and k.get('lines_missing') in ('some', 'some_line_all')
            and k.get('exception') == 'TypeError')


@predicate
def c15_object_1d_all_missing_shortcut(w):
    """skipna=True on a 1-D object array without any non-None cell (all None, or empty): util.ufunc_axis_skipna
    returns np.nan before calling the function, whatever the function (sum -> nan instead of 0, all/any -> nan);
    reached by object Series, by 1-D object blocks and by 1-D blocks cast to an object row dtype."""
    k = w['klass']
    if k.get('skipna') is not True:
        return False
    if w['what'] == 'series_path_differs_from_model':
        return k.get('line_kind') == 'O' and k.get('line_missing') in ('all', 'empty')
    if w['what'] == _CELL:
        return (k.get('row_kind') == 'O' and k.get('line_missing') in ('all', 'empty')
                and (k.get('axis') == 1 or k.get('block') in ('1d', '2d1', '2dN')))
    if w['what'] == 'frame_returned_but_line_raises':   # min/max of an empty line must raise; the shortcut answers nan
        return k.get('row_kind') == 'O' and k.get('line_missing') == 'empty' and k.get('fn') in ('min', 'max') and k.get('block') == '1d'
    return False


@predicate
def c15_object_minmax_nan_not_propagated(w):
    """min / max with skipna=False over an object array holding NaN beside numbers: NumPy compares the Python objects,
    NaN loses every comparison and a present value is returned (Series and Frame alike; also float blocks cast to an
    object row dtype in multi-block frames)."""
    k = w['klass']
    if not (k.get('fn') in ('min', 'max') and k.get('skipna') is False and k.get('line_missing') == 'some'):
        return False
    if w['what'] in ('series_path_differs_from_model', 'missing_treated_as_number'):
        return k.get('line_kind') == 'O' and k.get('got_is_array') is not True
    return (w['what'] == _CELL and k.get('row_kind') == 'O' and k.get('line_kind') in ('f', 'c') and k.get('axis') == 0
            and k.get('layout') == 'multi')


@predicate
def c15_out_buffer_object_row_dtype_cast(w):
    """min / max on axis 0 of a multi-block frame whose row dtype is object (bool + float, datetime + int, ...): float /
    datetime blocks are cast to object before reducing, NaN / NaT become objects NumPy's nan-aware reductions cannot
    handle -> TypeError / AttributeError for the whole frame."""
    k = w['klass']
    return (w['what'] == _RAISED and k.get('fn') in ('min', 'max') and k.get('axis') == 0 and k.get('layout') == 'multi'
            and k.get('row_kind') == 'O' and any(c in (k.get('line_kinds') or '') for c in 'fcMm')
            and k.get('lines_missing') in ('some', 'some_line_all') and k.get('exception') in ('TypeError', 'AttributeError'))


@predicate
def c15_object_cumulative_none(w):
    """cumsum / cumprod with skipna=True over object cells holding None: the Series path drops the None cells before
    accumulating (length no longer matches the index), the Frame path hands None to np.nancumsum/np.nancumprod -> TypeError."""
    k = w['klass']
    if not (k.get('fn') in ('cumsum', 'cumprod') and k.get('skipna') is True):
        return False
    if w['what'] == 'series_path_differs_from_model':
        return k.get('line_kind') == 'O' and k.get('line_missing') in ('some', 'all')
    if w['what'] == _RAISED:
        return k.get('row_kind') == 'O' and k.get('lines_missing') in ('some', 'some_line_all') and k.get('exception') == 'TypeError'
    return w['what'] == _CELL and k.get('line_kind') == 'O' and k.get('line_missing') in ('some', 'all') and k.get('series_path_ok') is False


@predicate
def c15_outside_domain_layout_dependent(w, fns, **conds):
    """outside the functions' domain, whether the call raises depends on the layout, through the mechanisms already
    listed: blocks cast to the float64 out dtype (mean/median/std/var of datetime / str / object columns give numbers in
    multi-block frames and raise in the unified one), size_one_unity, 0-row logical results."""
    k = w['klass']
    if w['what'] != 'layout_dependent_outcome_kind' or k.get('in_domain') is not False or k.get('fn') not in fns:
        return False
    return all((k.get(a) in b) if isinstance(b, list) else (k.get(a) == b) for a, b in conds.items())


@predicate
def c15_narrow_float_row_dtype(w):
    """axis-0 reduction of a multi-block frame whose row dtype is float16 / float32 (small ints beside a narrow float column):
    int blocks are cast to the narrow float before reducing and intermediate results overflow / lose precision."""
    k = w['klass']
    return (w['what'] == _CELL and k.get('axis') == 0 and k.get('layout') == 'multi' and k.get('row_dtype') in ('float16', 'float32')
            and k.get('line_kind') in ('i', 'u') and k.get('fn') in _REDUCE)


@predicate
def c15_real_inf_in_complex_row_dtype(w):
    """a real column holding +-inf beside a complex column (row dtype complex128): the column is computed as complex,
    where inf arithmetic yields nan parts (axis 0 of multi-block frames; cumsum / cumprod through Frame.values)."""
    k = w['klass']
    return (w['what'] == _CELL and k.get('axis') == 0 and k.get('layout') == 'multi' and k.get('row_kind') == 'c'
            and k.get('line_kind') == 'f' and k.get('has_inf') is True
            and k.get('fn') in ('sum', 'prod', 'mean', 'cumsum', 'cumprod'))


@predicate
def c15_grown_frame_object_row_dtype(w):
    """a FrameGO that received columns of different dtypes one at a time consolidates its rows to object where the same frame built
    at once resolves a common dtype; reductions through that row dtype differ (or raise)"""
    k = w['klass']
    return w['what'] == 'grown_frame_reduces_differently' and k.get('grown_rows_consolidate_to_object') is True
