"""Known-finding predicates for C08 (functional updates)."""
from sfmon.findings import predicate


@predicate
def c08_mask_name_not_propagated(w):
    return w['what'] == 'mask_name_not_preserved'


@predicate
def c08_block_granular_widening(w):
    """an unaddressed column that shares a 2-D block with an addressed one changes dtype (values equal)"""
    k = w['klass']
    return w['what'] in ('update_mismatch:unaddressed_dtype', 'astype_dtype_width') and k.get('shares_block_with_addressed') is True


@predicate
def c08_array_value_with_descending_column_key(w):
    """assign with an unlabelled array value and a column key that is not ascending: the key is sorted, the array is not permuted"""
    k = w['klass']
    return (w['what'] == 'update_mismatch:addressed_cell' and k.get('kind') == 'frame' and k.get('iface') == 'assign'
            and k.get('vshape') == 'array' and k.get('cols_ascending') is False)
