"""Known-finding predicates for C10 (equals / hash)."""
from sfmon.findings import predicate


@predicate
def c10_equals_zero_columns_raises(w):
    k = w['klass']
    return w['what'] in ('equals_raised', 'he_eq_raised') and k.get('zero_columns') is True and k.get('exception') == 'ErrorInitTypeBlocks'


@predicate
def c10_nat_equal_under_values_fallback(w):
    """two Frames with NaT at the same position whose block layouts are not compatible: the comparison falls back to
    consolidated object .values where NaT is None, so the cells compare equal even with skipna=False"""
    k = w['klass']
    return (w['what'] in ('equals_differs_from_reference', 'equals_not_transitive', 'he_eq_inconsistent_with_equals') and k.get('skipna') is False
            and k.get('nat_both') is True and k.get('layouts_equal') is False)
