"""Known-finding predicates for C19 (Quilt / Batch)."""
from sfmon.findings import predicate

_SEL = ('iloc', 'loc', 'getitem', 'iloc_row', 'iloc_col', 'head', 'tail')


def _q(w):
    return w['what'] == 'quilt_differs_from_concatenated_frame' and w['klass'].get('t') == 'quilt'


@predicate
def c19_quilt_empty_selection_raises(w):
    k = w['klass']
    return _q(w) and k.get('obs') in _SEL and k.get('key_empty') is True and k.get('got_kind') == 'exc:UnboundLocalError'


@predicate
def c19_quilt_zero_opposite_selection_raises(w):
    k = w['klass']
    return _q(w) and k.get('obs') in _SEL and k.get('opposite_key_empty') is True and k.get('key_empty') is not True \
        and str(k.get('got_kind', '')).startswith('exc:')


@predicate
def c19_quilt_nonascending_key_within_member(w):
    """a key on the Quilt axis whose positions are not ascending (descending slice, unsorted list): rows of each member come back
    in ascending order, and with retained labels the re-ordered pieces can violate the tree order of the hierarchy"""
    k = w['klass']
    return _q(w) and k.get('obs') in _SEL and k.get('key_ascending') is False and k.get('key_empty') is not True


@predicate
def c19_quilt_cross_axis_iteration_not_implemented(w):
    k = w['klass']
    return _q(w) and k.get('got_kind') == 'exc:NotImplementedAxis' and (str(k.get('obs', '')).startswith('iter_') or k.get('obs') == 'items')
