"""Known-finding predicates for C18 (parallel = sequential)."""
from sfmon.findings import predicate


@predicate
def namedtuple_rows_not_picklable_for_process_pool(w):
    """apply_pool over Frame.iter_tuple / iter_tuple_items with the default (namedtuple)
    constructor and a process pool: the dynamically created `Axis` class cannot be pickled to
    the workers, so the pool form raises where the sequential form returns."""
    k = w.get('klass', {})
    return (w['what'] == 'pool_raised_but_sequential_did_not' and k.get('api') == 'iter'
            and k.get('iface') == 'iter_tuple' and k.get('constructor') == 'namedtuple'
            and k.get('executor') == 'processes' and k.get('exception') == 'PicklingError')
