"""Known-finding predicates for C11 (concatenation / overlay)."""
from sfmon.findings import predicate


@predicate
def c11_empty_intersection_raises(w):
    """union=False and the inputs share no label on the aligned axis: the result should have a 0-length aligned axis, the call raises"""
    k = w['klass']
    # from_concat was repaired (2b5fb55: shape_reference for a result without columns); what remains is Frame.from_overlay
    return (w['what'] == 'valid_overlay_raised' and k.get('op') == 'frame_overlay' and k.get('union') is False
            and k.get('empty_intersection') is True and k.get('exception') == 'ErrorInitTypeBlocks')


@predicate
def c11_zero_sized_input_raises(w):
    """an input without rows or without columns (or an empty Series in the items form)"""
    k = w['klass']
    # from_concat was repaired (2b5fb55); what remains is the hierarchy of the items forms, built by IndexHierarchy.from_index_items
    return (w['what'] == 'valid_concat_raised' and k.get('zero_sized_input') is True and str(k.get('op')).endswith('_concat_items')
            and k.get('exception') == 'ErrorInitIndexLevel')


@predicate
def c11_overlay_zero_row_input_raises(w):
    """Frame.from_overlay with an input without rows: the reindex of a frame onto rows none of which it holds raises inside
    TypeBlocks.resize_blocks (the mechanism recorded as C03-reindex-no-row-overlap)"""
    k = w['klass']
    return (w['what'] == 'valid_overlay_raised' and k.get('op') == 'frame_overlay' and k.get('zero_row_input') is True
            and k.get('exception') in ('ValueError', 'IndexError'))
