"""Known-finding predicates for C03 (block-layout transparency)."""
from sfmon.findings import predicate

_WIDENING_OPS = {'fillna', 'fillna_leading', 'fillna_trailing', 'fillna_leading_axis1', 'fillna_trailing_axis1', 'fillna_forward', 'fillna_backward', 'fillna_forward_limited', 'fillna_backward_limited', 'fillna_frame', 'astype_all',
                 'astype_cols', 'via_str', 'binop_scalar', 'binop_array', 'assign_bloc', 'assign_scalar', 'assign_column_array', 'clip_frame'}


@predicate
def c03_bloc_order_follows_blocks(w):
    k = w['klass']
    return w['what'] == 'layout_dependent_outcome' and k.get('operation') == 'bloc' and k.get('same_mapping') is True


@predicate
def c03_block_granular_dtype_widening(w):
    """the layouts give value-equal cells, equal labels/shape/name; only per-column dtypes (and the
    presentation NumPy's object conversion gives the same values) differ; operation rewrites whole blocks"""
    k = w['klass']
    return (w['what'] == 'layout_dependent_outcome' and k.get('operation') in _WIDENING_OPS and k.get('value_equal') is True)


@predicate
def c03_reindex_no_row_overlap(w):
    k = w['klass']
    return w['what'] == 'layout_dependent_outcome' and k.get('operation') == 'reindex' and k.get('no_row_overlap') is True


@predicate
def c03_assign_empty_row_selection(w):
    k = w['klass']
    return w['what'] == 'layout_dependent_outcome' and k.get('operation') == 'assign_scalar' and k.get('rows_selected') == 0


@predicate
def c03_dropna_single_1d_column(w):
    k = w['klass']
    return w['what'] == 'layout_dependent_outcome' and k.get('operation') == 'dropna' and k.get('cols') == 1


@predicate
def c03_conversion_error_class_follows_block_order(w):
    k = w['klass']
    if w['what'] != 'layout_dependent_outcome' or k.get('differs') != 'exc/exc':
        return False
    if k.get('operation') in ('astype_all', 'astype_cols', 'astype_cols_present_dtype'):
        return True
    # element-wise operators over object cells: every layout raises, which failing cell NumPy meets first follows the block shape
    return k.get('operation') in ('binop_scalar', 'binop_array', 'unary', 'via_str') and 'O' in (k.get('dtype_kinds') or [])
