"""Known-finding predicates: each is evaluated on a violation witness
({property, what, detail, klass, ...}) and tests the *input class / mechanism* recorded in
`klass` (and `what`), never the observed wrong value.  A witness no predicate matches is a
VIOLATION."""

PREDICATES = {}


def predicate(fn):
    PREDICATES[fn.__name__] = fn
    return fn


@predicate
def klass_match(w, what=None, **conds):
    """Generic: `what` (if given) equals/among, and every klass key equals the given value
    (a list value means 'one of')."""
    if what is not None:
        if isinstance(what, list):
            if w['what'] not in what:
                return False
        elif w['what'] != what:
            return False
    k = w.get('klass', {})
    for key, val in conds.items():
        have = k.get(key)
        if isinstance(val, list):
            if have not in val:
                return False
        elif have != val:
            return False
    return True


@predicate
def auto_index_label_not_validated(w):
    """C04: an absent label (negative int, or an out-of-range slice bound) addressed to an
    auto-integer index, whose loc keys are passed through as positions; every axis that was
    expected to raise is such an axis."""
    if w['what'] != 'absent_or_out_of_range_key_returned_data':
        return False
    k = w['klass']
    errs = [(k.get('row_error'), k.get('row_kind')), (k.get('col_error'), k.get('col_kind'))]
    bad = [(e, kind) for e, kind in errs if e]
    return bool(bad) and all(e == 'absent' and kind == 'auto' for e, kind in bad)


@predicate
def label_slice_negative_step(w):
    """C04: a label slice with a negative step on some axis: the stop position is shifted up (+1) as for
    ascending slices, so the stop label (and its predecessor) are left out / the selection is empty."""
    k = w['klass']
    if w['what'] not in ('series_selection_mismatch', 'frame_selection_mismatch', 'frame_row_series_mismatch',
                         'frame_column_series_mismatch', 'series_element_mismatch', 'frame_element_mismatch'):
        return False
    return k.get('row_step_negative') is True or k.get('col_step_negative') is True


def _load_extra():
    """Per-property predicate modules sfmon/findings_cXX.py register themselves on import."""
    import glob
    import importlib
    import os
    here = os.path.dirname(os.path.abspath(__file__))
    for path in sorted(glob.glob(os.path.join(here, 'findings_c*.py'))):
        importlib.import_module('sfmon.' + os.path.basename(path)[:-3])


_load_extra()
