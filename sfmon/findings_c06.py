"""Known-finding predicates for C06 (set algebra and alignment)."""
from sfmon.findings import predicate


@predicate
def c06_unaligned_non_numeric_nan_fill(w):
    """operands with str / datetime64 / timedelta64 values whose labels are not identical: alignment reindexes
    with a NaN fill, the arrays become object arrays, and the operator raises TypeError (or compares NaT as None)"""
    k = w['klass']
    return (w['what'] in ('operator_raised', 'operator_cell') and k.get('t') in ('series_op', 'frame_op')
            and k.get('non_numeric') is True and k.get('same_index') is False)


@predicate
def c06_frame_layout_pair_fallback_changes_dtype(w):
    """two Frames with equal labels but neither block- nor reblock-compatible layouts: the operator falls back to
    consolidated .values and int columns come back float"""
    k = w['klass']
    return w['what'] == 'operator_equal_indices_dtype' and k.get('t') == 'frame_op' and k.get('layouts_equal') is False
