"""External instrumentation (no edit of /repo): anchor-reach counters through
sys.monitoring PY_START events restricted to the anchor code objects, and class-level
entry/exit wrappers that evaluate structural invariants at the functions every code path
funnels through.  Active only when STATIC_FRAME_VERIF=1 (set by the runner).
"""
import functools
import importlib
import os
import sys
from collections import Counter

import numpy as np

GUARD = 'STATIC_FRAME_VERIF'
TOOL_ID = 3
_anchor_counts = Counter()
_code_names = {}
_hook_counts = Counter()
_undo = []
_ctx = None
_active = False


def _resolve(modname, qual):
    mod = importlib.import_module(modname)
    obj = mod
    owner = None
    for part in qual.split('.'):
        owner = obj
        obj = getattr(obj, part) if not isinstance(obj, type) else _mro_lookup(obj, part)
    return owner, obj


def _mro_lookup(cls, name):
    for k in cls.__mro__:
        if name in k.__dict__:
            return k.__dict__[name]
    raise AttributeError(f'{cls.__name__}.{name}')


def _code_of(obj):
    if isinstance(obj, (staticmethod, classmethod)):
        obj = obj.__func__
    if isinstance(obj, property):
        obj = obj.fget
    obj = getattr(obj, '__wrapped__', obj)
    return getattr(obj, '__code__', None)


def _on_start(code, offset):
    _anchor_counts[_code_names.get(code, code.co_qualname)] += 1


def start(mod, ctx):
    """Install anchor counters for `mod.ANCHORS` ({module: [qualnames]}) and the hook
    invariants named in `mod.HOOKS`."""
    global _ctx, _active
    _ctx = ctx
    if os.environ.get(GUARD) != '1':
        return
    _active = True
    anchors = getattr(mod, 'ANCHORS', {})
    try:
        sys.monitoring.use_tool_id(TOOL_ID, 'sfmon')
    except ValueError:
        pass
    sys.monitoring.register_callback(TOOL_ID, sys.monitoring.events.PY_START, _on_start)
    for modname, quals in anchors.items():
        for q in quals:
            name = f'{modname.rsplit(".", 1)[-1]}.{q}'
            try:
                _, obj = _resolve(modname, q)
                code = _code_of(obj)
            except Exception:
                code = None
            if code is None:
                _anchor_counts[name + ' (unresolved)'] += 0
                continue
            _code_names[code] = name
            _anchor_counts[name] += 0
            sys.monitoring.set_local_events(TOOL_ID, code, sys.monitoring.events.PY_START)
    for h in getattr(mod, 'HOOKS', ()):
        HOOK_INSTALLERS[h]()


def stop():
    global _active
    if _active:
        for code in list(_code_names):
            try:
                sys.monitoring.set_local_events(TOOL_ID, code, 0)
            except Exception:
                pass
        try:
            sys.monitoring.free_tool_id(TOOL_ID)
        except Exception:
            pass
        for cls, name, orig in reversed(_undo):
            setattr(cls, name, orig)
        _undo.clear()
        _active = False
    return dict(_anchor_counts), dict(_hook_counts)


def anchor_count(name):
    return _anchor_counts.get(name, 0)


# --------------------------------------------------------------------------------------
# wrappers

def _defining_class(cls, name):
    for k in cls.__mro__:
        if name in k.__dict__:
            return k
    raise AttributeError(name)


def wrap_exit(cls, name, hook_name, after):
    """Wrap cls.name (on the class that defines it): `after(self, args, kwargs, result,
    exc)` runs at exit, returning or raising; violations are reported through ctx."""
    owner = _defining_class(cls, name)
    orig = owner.__dict__[name]
    func = orig

    @functools.wraps(func)
    def wrapper(self, *args, **kwargs):
        try:
            result = func(self, *args, **kwargs)
        except BaseException as e:
            _hook_counts[hook_name] += 1
            try:
                after(self, args, kwargs, None, e)
            except _Broken as b:
                _report(hook_name, b)
            except Exception as he:  # the hook itself failed (e.g. private state it reads was renamed): never disturb the library call
                _hook_failed(hook_name, he)
            raise
        _hook_counts[hook_name] += 1
        try:
            after(self, args, kwargs, result, None)
        except _Broken as b:
            _report(hook_name, b)
        except Exception as he:
            _hook_failed(hook_name, he)
        return result

    setattr(owner, name, wrapper)
    _undo.append((owner, name, orig))
    _hook_counts[hook_name] += 0


class _Broken(Exception):
    def __init__(self, what, **detail):
        super().__init__(what)
        self.what = what
        self.detail = detail


def _hook_failed(hook_name, exc):
    """a failing hook is the monitor's problem, not the library's: recorded as a harness error (the check ends inconclusive)"""
    if _ctx is not None and len(_ctx.harness_errors) < 50:
        _ctx.harness_errors.append(f'hook {hook_name} failed: {type(exc).__name__}: {exc}'[:400])


def _report(hook_name, b):
    if _ctx is not None:
        _ctx.violation('hook_invariant:' + b.what, detail=dict(b.detail, hook=hook_name),
                       klass={'hook': hook_name, 'invariant': b.what})


# -- TypeBlocks structural invariant ---------------------------------------------------

def typeblocks_invariant(tb):
    blocks, index, dtypes, shape = tb._blocks, tb._index, tb._dtypes, tb._shape
    if not (len(index) == len(dtypes) == shape[1]):
        raise _Broken('tb_lengths', index=len(index), dtypes=len(dtypes), shape=tuple(shape))
    col = 0
    for bi, b in enumerate(blocks):
        if b.ndim > 2:
            raise _Broken('tb_block_ndim', block=bi, ndim=b.ndim)
        if b.flags.writeable:
            raise _Broken('tb_block_writeable', block=bi)
        rows = b.shape[0]
        width = 1 if b.ndim == 1 else b.shape[1]
        if blocks and rows != shape[0] and not (shape[1] == 0):
            raise _Broken('tb_block_rows', block=bi, rows=rows, shape=tuple(shape))
        for c in range(width):
            if col >= len(index):
                raise _Broken('tb_index_short', col=col)
            if tuple(index[col]) != (bi, c):
                raise _Broken('tb_index_entry', col=col, entry=tuple(index[col]), expected=(bi, c))
            if dtypes[col] != b.dtype:
                raise _Broken('tb_dtype_entry', col=col, entry=str(dtypes[col]), block=str(b.dtype))
            col += 1
    if col != shape[1]:
        raise _Broken('tb_width_sum', total=col, shape=tuple(shape))


def _install_typeblocks():
    from static_frame.core.type_blocks import TypeBlocks

    def after(self, args, kwargs, result, exc):
        if exc is None or hasattr(self, '_shape'):
            try:
                self._shape
            except AttributeError:
                return
            typeblocks_invariant(self)

    wrap_exit(TypeBlocks, '__init__', 'TypeBlocks.__init__', after)
    wrap_exit(TypeBlocks, 'append', 'TypeBlocks.append', after)
    wrap_exit(TypeBlocks, 'extend', 'TypeBlocks.extend', after)


# -- Index bijection invariant -----------------------------------------------------------

def index_invariant(idx, limit=64):
    """labels <-> positions agree with the private map (flat indices)."""
    try:
        recache = idx._recache
    except AttributeError:
        return
    if recache:
        return  # grow-only index between append and cache refresh: labels array is stale by design
    labels = idx._labels
    m = idx._map
    n = len(labels)
    if m is None:
        if idx._positions is not None and len(idx._positions) != n:
            raise _Broken('idx_positions_len', n=n, positions=len(idx._positions))
        if n and labels.dtype.kind in 'iu':
            if not np.array_equal(labels, np.arange(n)):
                raise _Broken('idx_automap_none_but_labels_not_range', labels=labels[:8].tolist())
        return
    if len(m) != n:
        raise _Broken('idx_map_len', map=len(m), labels=n)
    for i in range(min(n, limit)):
        lab = labels[i]
        if lab != lab:
            continue  # NaN / NaT labels: equality-based lookup is undefined (excluded by the statement)
        try:
            pos = m[lab]
        except KeyError:
            raise _Broken('idx_label_not_in_map', i=i, label=repr(lab))
        if pos != i:
            raise _Broken('idx_map_position', i=i, label=repr(lab), pos=int(pos))


def _install_index():
    from static_frame.core.index import Index, IndexGO

    def after(self, args, kwargs, result, exc):
        if exc is None:
            index_invariant(self)

    wrap_exit(Index, '__init__', 'Index.__init__', after)
    wrap_exit(IndexGO, '_update_array_cache', 'IndexGO._update_array_cache', after)

    def after_append(self, args, kwargs, result, exc):
        # after append the map and the mutable label list must agree, whether it raised or not
        m = self._map
        lm = self._labels_mutable
        if m is not None and len(m) != len(lm):
            raise _Broken('idxgo_map_vs_mutable_labels', map=len(m), labels=len(lm), raised=exc is not None)
        if m is None and self._positions_mutable_count != len(lm):
            raise _Broken('idxgo_count_vs_mutable_labels', count=self._positions_mutable_count, labels=len(lm))
        if m is not None:
            import datetime
            for i, lab in enumerate(lm[:64]):
                if isinstance(lab, (datetime.date, datetime.timedelta)):
                    continue  # tolist() of a datetime64 array: the map is keyed by the datetime64 scalars
                try:
                    pos = m[lab]
                except KeyError:
                    raise _Broken('idxgo_label_not_in_map', i=i, label=repr(lab))
                if pos != i:
                    raise _Broken('idxgo_map_position', i=i, label=repr(lab))

    wrap_exit(IndexGO, 'append', 'IndexGO.append', after_append)


# -- IndexLevel tree invariant -------------------------------------------------------------

def _len_without_refresh(index):
    """number of labels of an index WITHOUT triggering the cache refresh of a grow-only index: len(index) would rebuild the
    label / position arrays and so hide exactly the stale-cache states the workloads try to reach (a monitor must not change
    what it observes)."""
    if getattr(index, '_recache', False):
        n = getattr(index, '_positions_mutable_count', None)
        if n is not None:
            return n
    labels = getattr(index, '_labels', None)
    return len(labels) if labels is not None else len(index)


def _targets_without_refresh(targets):
    """The child nodes held by an ArrayGO (consolidated array plus pending list) read from its fields, so that observing the tree
    does not fold the pending items in (that fold is the library's own lazy step and must be left for it to take)."""
    if hasattr(targets, '_array_mutable') and hasattr(targets, '_array'):
        out = list(targets._array) if targets._array is not None else []
        if targets._array_mutable:
            out.extend(targets._array_mutable)
        return out
    return list(targets)


def level_invariant(level):
    """Every node's offset equals the number of leaves before it (within its parent);
    targets and index have equal length."""
    def leaves(node):
        if node.targets is None:
            return _len_without_refresh(node.index)
        return sum(leaves(t) for t in _targets_without_refresh(node.targets))

    def walk(node):
        if node.targets is None:
            return
        targets = _targets_without_refresh(node.targets)
        if len(targets) != _len_without_refresh(node.index):
            raise _Broken('level_targets_len', targets=len(targets), labels=_len_without_refresh(node.index))
        run = 0
        for t in targets:
            if t.offset != run:
                raise _Broken('level_offset', offset=int(t.offset), expected=run)
            run += leaves(t)
            walk(t)
    walk(level)


def _install_level():
    from static_frame.core.index_hierarchy import IndexHierarchy
    from static_frame.core.index_level import IndexLevelGO

    def after_ih(self, args, kwargs, result, exc):
        if exc is None:
            level_invariant(self._levels)

    wrap_exit(IndexHierarchy, '__init__', 'IndexHierarchy.__init__', after_ih)

    def after_lv(self, args, kwargs, result, exc):
        if exc is None:
            level_invariant(self)

    wrap_exit(IndexLevelGO, 'append', 'IndexLevelGO.append', after_lv)
    wrap_exit(IndexLevelGO, 'extend', 'IndexLevelGO.extend', after_lv)


HOOK_INSTALLERS = {
    'typeblocks': _install_typeblocks,
    'index': _install_index,
    'level': _install_level,
}
