"""Known-finding predicates for C14 (missing-value operations)."""
from sfmon.findings import predicate


@predicate
def c14_zero_column_frame(w):
    """a Frame without columns: every block generator yields nothing and TypeBlocks.from_blocks cannot
    derive the row count (dropna: next() of an empty consolidation)"""
    k = w['klass']
    return (w['what'] == 'valid_call_raised' and k.get('kind') == 'frame' and k.get('zero_cols') is True
            and k.get('exception') in ('ErrorInitTypeBlocks', 'StopIteration', 'TypeError'))


@predicate
def c14_dropna_axis1_single_1d_block(w):
    """dropna(axis=1) on a frame stored as one 1-D block: the unified isna array is 1-D, axis and condition are
    ignored and the per-row flags are used as the column key"""
    k = w['klass']
    return (k.get('kind') == 'frame' and k.get('op') == 'dropna' and k.get('axis') == 1 and k.get('single_1d_block') is True
            and ((w['what'] == 'valid_call_raised' and k.get('exception') == 'IndexError') or w['what'] == 'dropna_removed_wrong_lines'))


@predicate
def c14_sided_fill_zero_rows(w):
    """fillna_leading / fillna_trailing along axis 0 on a frame without rows indexes the empty isna array"""
    k = w['klass']
    return (w['what'] == 'valid_call_raised' and k.get('kind') == 'frame' and k.get('op') in ('leading', 'trailing')
            and k.get('axis') == 0 and k.get('zero_rows') is True and k.get('zero_cols') is False and k.get('exception') == 'IndexError')


@predicate
def c14_fillna_frame_disjoint_on_one_axis(w):
    """Frame.fillna(Frame) reindexes the container to the target: when the container shares no label with the
    target on exactly one axis, TypeBlocks.resize_blocks uses the absent iloc maps (None)"""
    k = w['klass']
    r, c = k.get('container_common_rows'), k.get('container_common_cols')
    return (w['what'] == 'valid_call_raised' and k.get('op') == 'fillna_frame' and k.get('exception') in ('TypeError', 'ValueError')
            and k.get('zero_cols') is False and ((r == 'none') != (c == 'none')))


@predicate
def c14_series_fillna_series_hierarchy(w):
    """Series.fillna(Series) on a hierarchical index: the common labels are computed with intersect1d on the 2-D
    label arrays (unhashable rows / flattened depth values), so the call raises or covers no label"""
    k = w['klass']
    return (k.get('kind') == 'series' and k.get('op') == 'fillna_series' and str(k.get('index_kind', '')).startswith('hier')
            and ((w['what'] == 'valid_call_raised' and k.get('exception') in ('TypeError', 'RuntimeError'))
                 or w['what'] == 'missing_cell_not_filled'))
