"""Reference model of the missing-value operations (C14), written from the statement on plain
Python lists: a *line* is one column (axis 0) or one row (axis 1) of a cell table.

missing = NaN / None / NaT (sfmon.canon.is_missing).  Nothing here calls the library."""
from sfmon.canon import cs, is_missing


def isna_table(cells):
    return [[is_missing(v) for v in row] for row in cells]


def directional_line(line, forward, limit):
    """Copy the nearest preceding (forward) / following (backward) non-missing value into at most
    `limit` consecutive missing cells (0 = unlimited).  Returns (new line, filled positions)."""
    n = len(line)
    out = list(line)
    filled = set()
    order = range(n) if forward else range(n - 1, -1, -1)
    have, last, run = False, None, 0
    for i in order:
        v = line[i]
        if is_missing(v):
            run += 1
            if have and (limit == 0 or run <= limit):
                out[i] = last
                filled.add(i)
        else:
            have, last, run = True, v, 0
    return out, filled


def sided_line(line, leading, value):
    """Only the missing run touching the leading (first) / trailing (last) edge is replaced."""
    n = len(line)
    out = list(line)
    filled = set()
    order = range(n) if leading else range(n - 1, -1, -1)
    for i in order:
        if not is_missing(line[i]):
            break
        out[i] = value
        filled.add(i)
    return out, filled


def lines(cells, nr, nc, axis):
    """axis 0: the lines are the columns (walked top to bottom); axis 1: the rows."""
    if axis == 0:
        return [[cells[r][c] for r in range(nr)] for c in range(nc)]
    return [list(cells[r]) for r in range(nr)]


def apply_lines(cells, nr, nc, axis, fn):
    """Apply a line function along `axis`; returns (new table, set of filled (r, c))."""
    out = [list(row) for row in cells]
    filled = set()
    for k, line in enumerate(lines(cells, nr, nc, axis)):
        new, pos = fn(line)
        for i, v in enumerate(new):
            if axis == 0:
                out[i][k] = v
            else:
                out[k][i] = v
        for i in pos:
            filled.add((i, k) if axis == 0 else (k, i))
    return out, filled


def fill_element(cells, value):
    out = [list(row) for row in cells]
    filled = set()
    for r, row in enumerate(cells):
        for c, v in enumerate(row):
            if is_missing(v):
                out[r][c] = value
                filled.add((r, c))
    return out, filled


def fill_container(cells, rows, cols, frows, fcols, fcells):
    """Label-aligned fill: a missing cell (r, c) takes the container's value at the same labels
    when the container holds both labels; every other cell is untouched."""
    rpos = {cs(l): i for i, l in enumerate(frows)}
    cpos = {cs(l): j for j, l in enumerate(fcols)}
    out = [list(row) for row in cells]
    filled = set()
    for r, row in enumerate(cells):
        i = rpos.get(cs(rows[r]))
        if i is None:
            continue
        for c, v in enumerate(row):
            j = cpos.get(cs(cols[c]))
            if j is not None and is_missing(v):
                out[r][c] = fcells[i][j]
                filled.add((r, c))
    return out, filled


def dropna_keep(cells, nr, nc, axis, condition):
    """Positions kept along `axis` (0: rows, 1: columns): a row/column is removed when all / any of
    its cells are missing."""
    cond = all if condition == 'all' else any
    na = isna_table(cells)
    if axis == 0:
        return [r for r in range(nr) if not cond(na[r][c] for c in range(nc))]
    return [c for c in range(nc) if not cond(na[r][c] for r in range(nr))]


def count(cells, nr, nc, axis, skipna):
    """axis 0: one count per column; axis 1: one per row."""
    out = []
    for line in lines(cells, nr, nc, axis):
        out.append(sum(1 for v in line if not (skipna and is_missing(v))))
    return out
