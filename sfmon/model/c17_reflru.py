"""Reference model of a lazily loading, bounded Bus (C17), written from the statement:
an ordered list of labels, the set of labels whose Frame is loaded, and - when a bound
`max_persist` is given - a least-recently-used order kept in an OrderedDict (oldest first).

An *access* of a label: hit -> becomes most recently used; miss -> must be read from the
store, becomes most recently used, and while more than `max_persist` labels are loaded the
least recently used one is unloaded.  A multi-label access is the accesses of its labels in
selection order.  Frames already loaded when the Bus is created rank in label order, oldest
first (nothing in the statement orders them; this is the reading the monitor documents)."""
from collections import OrderedDict


class BusModel:
    __slots__ = ('labels', 'max_persist', 'lru', 'via', 'tag', 'memo')

    def __init__(self, labels, max_persist, loaded=(), via=None, tag='root'):
        self.labels = list(labels)
        self.max_persist = max_persist
        self.lru = OrderedDict((l, None) for l in self.labels if l in set(loaded))
        self.via = dict(via or {})  # label -> how the Frame now held was obtained (evidence / finding keys)
        self.memo = dict(self.via)  # label -> how it was last obtained, kept after eviction (used when the monitor resynchronises)
        self.tag = tag

    def copy(self):
        m = BusModel(self.labels, self.max_persist, tag=self.tag)
        m.lru = OrderedDict(self.lru)
        m.via = dict(self.via)
        m.memo = dict(self.memo)
        return m

    @property
    def loaded(self):
        return set(self.lru)

    def order(self):
        return list(self.lru)

    def misses(self, labels):
        """labels of an access that are unloaded when it starts (the only store reads a lazy
        Bus may make for it)."""
        return [l for l in labels if l not in self.lru]

    def access(self, labels, via='read_many'):
        """Apply one (multi-)label access; returns (misses in the pure model, evicted)."""
        read, evicted = [], []
        bounded = self.max_persist is not None
        for l in labels:
            if l in self.lru:
                if bounded:
                    self.lru.move_to_end(l)
                continue
            read.append(l)
            self.lru[l] = None
            self.via[l] = via
            self.memo[l] = via
            if bounded:
                while len(self.lru) > self.max_persist:
                    old, _ = self.lru.popitem(last=False)
                    self.via.pop(old, None)
                    evicted.append(old)
        return read, evicted

    def derive(self, labels, tag):
        """Model of a Bus derived from this one holding `labels` (selection, drop, reindex,
        sort): same bound, the Frames loaded here that it keeps, ranked in its label order."""
        keep = [l for l in labels if l in self.lru]
        return BusModel(labels, self.max_persist, loaded=keep, via={l: self.via.get(l) for l in keep}, tag=tag)

    def state(self):
        return {'labels': self.labels, 'loaded': sorted(map(repr, self.lru)), 'order': [repr(l) for l in self.lru],
                'max_persist': self.max_persist}
