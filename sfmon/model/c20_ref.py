"""C20 reference model (`refrelational`): the relational definitions of join / pivot /
stack and the label-move operations in plain Python, written from the property statement.
Nothing here imports static_frame; inputs are Python values and canonical scalars
(`sfmon.canon.cs`)."""
import datetime

import numpy as np

from sfmon import canon
from sfmon.canon import cs, veq

_NUMK = ('bool', 'int', 'float', 'complex')


def _numv(c):
    return int(c[1]) if c[0] == 'bool' else canon._num(c)


def leq(e, g, close=False):
    """*value strength modulo NumPy promotion*: equal canonical scalars; or numerically equal
    numbers (a bool/int presented as the equal float after a fill value widened the column;
    exactness of promotion is C07's subject); or a datetime64 presented as the equal
    datetime.date/datetime object, NaT as None/NaN-free missing marker, which is what NumPy's
    object conversion produces.  `close` additionally allows float summation-order noise."""
    if veq(e, g):
        return True
    if e[0] in _NUMK and g[0] in _NUMK:
        if e[0] == 'int' and g[0] == 'int':
            return False  # two ints are equal exactly or not at all (veq above): no promotion lies between them
        try:
            x, y = _numv(e), _numv(g)
            if x != x and y != y:
                return True
            if complex(x) == complex(y):
                return True
            return bool(close) and canon.ceq(_as_num(e), _as_num(g))
        except Exception:
            return False
    if e[0] in ('dt64', 'td64') and e[2] == canon.NAT and g[0] == 'None':
        return True
    if e[0] == 'dt64' and g[0] in ('date', 'datetime') and e[2] != canon.NAT:
        try:
            return bool(np.datetime64(g[1]) == np.array(e[2], dtype=f'M8[{e[1]}]'))
        except Exception:
            return False
    if e[0] == 'td64' and g[0] == 'timedelta' and e[2] != canon.NAT:
        # NumPy's object conversion presents timedelta64 as datetime.timedelta
        try:
            td = datetime.timedelta(days=g[1][0], seconds=g[1][1], microseconds=g[1][2])
            return bool(np.timedelta64(td) == np.timedelta64(e[2], e[1]))
        except Exception:
            return False
    if e[0] == g[0] == 'tuple' and len(e[1]) == len(g[1]):
        return all(leq(x, y, close) for x, y in zip(e[1], g[1]))
    return False


def _as_num(c):
    return ('int', int(c[1])) if c[0] == 'bool' else c


def seq_leq(es, gs, close=False):
    return len(es) == len(gs) and all(leq(e, g, close) for e, g in zip(es, gs))


# --------------------------------------------------------------------------------------
# labels

def py_equal(a, b):
    """Python-level equality of two label values (tuples element-wise), False on error."""
    if isinstance(a, tuple) and isinstance(b, tuple):
        return len(a) == len(b) and all(py_equal(x, y) for x, y in zip(a, b))
    if isinstance(a, tuple) or isinstance(b, tuple):
        return False
    try:
        r = a == b
        return bool(r)
    except Exception:
        return False


def _maybe_equal(a, b):
    """Could an index take the two label values for the same label?  Equal values, values equal
    across types (1 / True / 1.0), and any two missing markers (NaN, NaT of any kind, None: one
    object conversion makes them the same None)."""
    if isinstance(a, tuple) and isinstance(b, tuple):
        return len(a) == len(b) and all(_maybe_equal(x, y) for x, y in zip(a, b))
    if isinstance(a, tuple) or isinstance(b, tuple):
        return False
    if canon.is_missing(a) and canon.is_missing(b):
        return True
    ca, cb = cs(a), cs(b)
    return ca == cb or py_equal(a, b) or leq(ca, cb)


def unique_status(labels):
    """'unique': no two labels could be taken for the same label; 'dup': two labels are the
    same value of the same type (an index must refuse them); 'unclear': equal only across types
    or missing markers, where whether an index accepts them is the subject of C02."""
    status = 'unique'
    n = len(labels)
    cl = [cs(x) for x in labels]
    for i in range(n):
        for j in range(i + 1, n):
            if cl[i] == cl[j] and py_equal(labels[i], labels[j]):
                return 'dup'
            if _maybe_equal(labels[i], labels[j]):
                status = 'unclear'
    return status


def _hkey(x):
    """Key under which an index would hash a label element: numbers that compare equal
    (1, 1.0, True, 1+0j) collapse; everything else keeps its canonical form."""
    c = x if (isinstance(x, tuple) and x and isinstance(x[0], str) and x[0] in _ALLK) else cs(x)
    if c[0] in _NUMK:
        try:
            v = _numv(c)
            if v == v:
                return ('num', complex(v))
        except Exception:
            pass
    return c


_SELF_UNEQUAL = {('float', canon.NAN), ('dt64', 'D', canon.NAT), ('dt64', 's', canon.NAT), ('dt64', 'ns', canon.NAT),
                 ('dt64', 'M', canon.NAT), ('dt64', 'Y', canon.NAT), ('td64', 'D', canon.NAT), ('td64', 's', canon.NAT)}

_ALLK = {'None', 'bool', 'int', 'float', 'complex', 'str', 'bytes', 'dt64', 'td64', 'datetime', 'date', 'timedelta', 'tuple', 'list', 'array',
         'frozenset', 'other'}


def is_tree(tuples):
    """Equal-depth tuples are tree-shaped when, at every depth, equal prefixes are
    contiguous (what a hierarchical index requires of labels in the given order)."""
    if not tuples:
        return True
    depth = len(tuples[0])
    for d in range(1, depth):
        seen, prev = set(), object()
        for t in tuples:
            pre = tuple(_hkey(x) for x in t[:d])
            if any(k in _SELF_UNEQUAL for k in pre):
                return False   # NaN / NaT never equals an earlier label: not reliably a tree
            if pre != prev:
                if pre in seen:
                    return False
                seen.add(pre)
                prev = pre
    return True


# --------------------------------------------------------------------------------------
# join

def key_match(lk, rk):
    """Two key vectors match when every field compares equal (NaN / NaT equal nothing)."""
    if len(lk) != len(rk):
        return False
    for a, b in zip(lk, rk):
        if canon.is_self_unequal(a) or canon.is_self_unequal(b):
            return False
        if not py_equal(a, b):
            return False
    return True


def join_pairs(lkeys, rkeys):
    """Nested-loop join: all (i, j) with matching keys, plus the cardinality class."""
    pairs = [(i, j) for i, lk in enumerate(lkeys) for j, rk in enumerate(rkeys) if key_match(lk, rk)]
    lcount, rcount = {}, {}
    for i, j in pairs:
        lcount[i] = lcount.get(i, 0) + 1
        rcount[j] = rcount.get(j, 0) + 1
    one_many = any(v > 1 for v in lcount.values())
    many_one = any(v > 1 for v in rcount.values())
    card = 'many_to_many' if (one_many and many_one) else 'one_to_many' if one_many else 'many_to_one' if many_one else 'one_to_one'
    return pairs, card


def join_rows(pairs, n_left, n_right, how):
    """Output row sources [(i | None, j | None)] of the relational join `how`."""
    out = list(pairs)
    if how in ('left', 'outer'):
        matched = {i for i, _ in pairs}
        out.extend((i, None) for i in range(n_left) if i not in matched)
    if how in ('right', 'outer'):
        matched = {j for _, j in pairs}
        out.extend((None, j) for j in range(n_right) if j not in matched)
    return out


def multiset_match(expected, got, eq):
    """Greedy one-to-one matching of two row lists under a (non-hashable) equality; returns
    (unmatched expected rows, unmatched got rows)."""
    left = list(got)
    missing = []
    for e in expected:
        for k, g in enumerate(left):
            if eq(e, g):
                del left[k]
                break
        else:
            missing.append(e)
    return missing, left


# --------------------------------------------------------------------------------------
# pivot

def pivot_groups(index_keys, column_keys):
    """dict-of-rows grouping: {(index key, column key): [row positions]} plus the distinct
    keys of each axis in first-appearance order (keys are tuples of canonical scalars)."""
    groups, ikeys, ckeys = {}, {}, {}
    for r, (ik, ck) in enumerate(zip(index_keys, column_keys)):
        groups.setdefault((ik, ck), []).append(r)
        ikeys.setdefault(ik, None)
        ckeys.setdefault(ck, None)
    return groups, list(ikeys), list(ckeys)


# --------------------------------------------------------------------------------------
# stack / unstack

def split_levels(label, targets):
    """(group part, target part) of a label tuple for target depth positions `targets`
    (in ascending depth order, as a Boolean level mask selects them)."""
    t = tuple(label[d] for d in range(len(label)) if d in targets)
    g = tuple(label[d] for d in range(len(label)) if d not in targets)
    return g, t


def norm_depths(depth_level, depth):
    ds = [depth_level] if isinstance(depth_level, int) else list(depth_level)
    return sorted({d % depth for d in ds})
